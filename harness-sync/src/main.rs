//! C19, thread-safe representation: jaq-json built with feature `sync`.
//! Static part: `Val` and the compiled filter are Send + Sync (this file does not compile otherwise).
//! Dynamic part: every filter of the job file runs on ONE input value shared by all threads (an `Arc`), from T threads
//! x R rounds, released together; each run is logged as {"t","seq","job","out"}; the reference is a run on the main
//! thread before any other thread exists.
//!
//!   harness-sync <jobs.ndjson> <out.ndjson> <T> <R>
use jaq_core::load::{Arena, File, Loader};
use jaq_core::{data, unwrap_valr, Compiler, Ctx, Vars};
use jaq_json::{read, Val};
use serde_json::{json, Value as J};
use std::io::{BufRead, Write};
use std::sync::{Arc, Barrier};

type D = data::JustLut<Val>;
type Filter = jaq_core::Filter<D>;

fn assert_send_sync<T: Send + Sync>() {}

fn compile(code: &str) -> Option<Filter> {
    let defs = jaq_core::defs().chain(jaq_std::defs()).chain(jaq_json::defs());
    let funs = jaq_core::funs::<D>().chain(jaq_std::funs::<D>()).chain(jaq_json::funs::<D>());
    let arena = Arena::default();
    let modules = Loader::new(defs).load(&arena, File { code, path: () }).ok()?;
    Compiler::default().with_funs(funs).compile(modules).ok()
}

fn exec(filter: &Filter, input: Val) -> Vec<String> {
    let ctx = Ctx::<D>::new(&filter.lut, Vars::new([]));
    filter.id.run((ctx, input)).take(64).map(unwrap_valr).map(|r| r.map_or_else(|e| format!("error({e})"), |v| v.to_string())).collect()
}

fn main() {
    assert_send_sync::<Filter>();
    assert_send_sync::<Val>();
    let args: Vec<String> = std::env::args().collect();
    let (t, r): (usize, usize) = (args[3].parse().unwrap(), args[4].parse().unwrap());
    let jobs: Vec<(String, Filter)> = std::io::BufReader::new(std::fs::File::open(&args[1]).unwrap())
        .lines()
        .filter_map(|l| {
            let j: J = serde_json::from_str(&l.unwrap()).ok()?;
            Some((j["id"].as_str()?.to_string(), compile(j["text"].as_str()?)?))
        })
        .collect();
    // machine integers, a big integer, a float, decimal literals, strings, byte strings, nesting: all behind shared counters
    let input = r#"[1, 100000000000000000000000000, 2.5, 1e1000, 0.10, "aä", null, true, {"a": [1, {"b": "x"}], "c": 100000000000000000000000000}, [[], {}]]"#;
    let input = read::parse_single(input.as_bytes()).unwrap();
    let mut w = std::io::BufWriter::new(std::fs::File::create(&args[2]).unwrap());
    let alone: serde_json::Map<String, J> = jobs.iter().map(|(id, f)| (id.clone(), json!(exec(f, input.clone())))).collect();
    writeln!(w, "{}", json!({"alone": alone})).unwrap();
    let shared = Arc::new((jobs, input));
    let barrier = Arc::new(Barrier::new(t));
    let hs: Vec<_> = (0..t)
        .map(|ti| {
            let (shared, barrier) = (shared.clone(), barrier.clone());
            std::thread::spawn(move || {
                let mut log = Vec::new();
                let mut seq = 0;
                barrier.wait();
                for round in 0..r {
                    for k in 0..shared.0.len() {
                        // every thread walks the jobs from another starting point
                        let (id, f) = &shared.0[(k * (ti + 1) + round + ti * 7) % shared.0.len()];
                        seq += 1;
                        log.push(json!({"t": ti + 1, "seq": seq, "job": id, "out": exec(f, shared.1.clone())}).to_string());
                    }
                }
                log
            })
        })
        .collect();
    for h in hs {
        for l in h.join().unwrap() {
            writeln!(w, "{l}").unwrap();
        }
    }
}

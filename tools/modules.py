#!/usr/bin/env python3
"""C16 driver: lay a TLC-generated module case out as real directories and files, run the real jaq (built with the
loader hook) on every probe, compare output / status / loader steps with what JaqModules prescribes."""
import json, os, shutil, subprocess


def val_text(v):
    t = v['t']
    if t == 'int':
        return str(v['n'])
    if t == 'str':
        return json.dumps(''.join(chr(c) for c in v['c']), ensure_ascii=False)
    if t == 'arr':
        return '[' + ','.join(val_text(x) for x in v['a']) + ']'
    if t == 'null':
        return 'null'
    if t == 'bool':
        return 'true' if v['b'] else 'false'
    raise ValueError(t)


def ast_text(t):
    k = t['k']
    if k == 'id':
        return '.'
    if k == 'num':
        return str(t['n'])
    if k == 'str':
        return json.dumps(''.join(''.join(chr(c) for c in p['c']) for p in t['parts']))
    if k == 'var':
        return '$' + t['x']
    if k in ('call', 'qcall'):
        name = (t['q'] + '::' if k == 'qcall' else '') + t['f']
        return name + ('(' + '; '.join(ast_text(a) for a in t['args']) + ')' if t['args'] else '')
    if k == 'arr':
        return '[' + (ast_text(t['f']) if 'f' in t else '') + ']'
    if k == 'bin':
        return '(' + ast_text(t['l']) + ' ' + t['op'] + ' ' + ast_text(t['r']) + ')'
    if k == 'as':
        return '(' + ast_text(t['l']) + ' as $' + t['pat']['x'] + ' | ' + ast_text(t['r']) + ')'
    if k == 'try':
        return '(try ' + ast_text(t['f']) + ' catch ' + ast_text(t['c']) + ')'
    raise ValueError(k)


def def_text(d):
    ps = [('$' if p['var'] else '') + p['n'] for p in d['params']]
    return 'def ' + d['name'] + ('(' + '; '.join(ps) + ')' if ps else '') + ': ' + ast_text(d['body']) + ';'


def sp_text(sp):
    c = '/'.join(sp['c'])
    if sp['base'] == 'home':
        return '~/' + c
    if sp['base'] == 'origin':
        return '$ORIGIN/' + c
    return c


def dir_text(d, root):
    path = '/'.join(d['sub'] + [d['name'] + ('.' + d['ext'] if d['ext'] else '')])
    if d['abs']:
        path = os.path.join(root, path)
    s = ('include ' if d['kind'] == 'inc' else 'import ') + json.dumps(path)
    if d['kind'] == 'imp':
        s += ' as ' + d['as']
    if d['kind'] == 'dat':
        s += ' as $' + d['as']
    if d['search']:
        sps = [sp_text(x) for x in d['search']]
        s += ' {search: ' + (json.dumps(sps[0]) if len(sps) == 1 else json.dumps(sps)) + '}'
    return s + ';'


def module_text(m, root):
    return '\n'.join([dir_text(d, root) for d in m['dirs']] + [def_text(d) for d in m['defs']]) + '\n'


ALL_DIRS = [['w'], ['h'], ['o', 'bin'], ['w', 'lib'], ['w', 's1'], ['h', 'hs'], ['o', 'os'], ['w', 'l1'], ['h', 'hl'], ['o', 'lib'], ['o', 'lib', 'jq'], ['w', 'p'],
            ['w', 'p', 's1'], ['h', '.jq'], ['w', 'lib', 'sub'], ['w', 'x'], ['w', 'lib', 'nowhere']]


def layout(case, root, jaq):
    shutil.rmtree(root, ignore_errors=True)
    for d in ALL_DIRS:
        os.makedirs(os.path.join(root, *d), exist_ok=True)
    # a hard link, not a copy: $ORIGIN is the directory of the executable; copying while other threads fork gives ETXTBSY
    try:
        os.link(jaq, os.path.join(root, 'o', 'bin', 'jaq'))
    except OSError:
        shutil.copy(jaq, os.path.join(root, 'o', 'bin', 'jaq'))
    mods = {tuple(m['path']): m for m in case['mod']}
    data = {tuple(m['path']): m for m in case['data']}
    for f in case['files']:
        p = os.path.join(root, *f)
        os.makedirs(os.path.dirname(p), exist_ok=True)
        if tuple(f) in data and tuple(f) not in mods:
            open(p, 'w').write(' '.join(val_text(v) for v in data[tuple(f)]['vals']) + '\n')
        elif tuple(f) in mods:
            open(p, 'w').write(module_text(mods[tuple(f)], root))
        else:
            open(p, 'w').write('')


def run_probe(case, root, body, timeout=20):
    main = case['main']
    text = '\n'.join([dir_text(d, root) for d in main['dirs']] + [def_text(d) for d in main['defs']] + [ast_text(body)])
    args = [os.path.join(root, 'o', 'bin', 'jaq'), '-n', '-c']
    for sp in case['L']:
        args += ['-L', sp_text(sp)]
    for name, v in case['globals']:
        args += (['--arg', name, ''.join(chr(c) for c in v['c'])] if v['t'] == 'str' else ['--argjson', name, val_text(v)])
    if main.get('file'):
        mp = os.path.join(root, *main['dir'], 'main.jq')
        open(mp, 'w').write(text + '\n')
        args += ['-f', mp]
    else:
        args += [text]
    env = dict(os.environ, HOME=os.path.join(root, 'h'))
    try:
        p = subprocess.run(args, cwd=os.path.join(root, 'w'), env=env, stdout=subprocess.PIPE, stderr=subprocess.PIPE, timeout=timeout)
    except subprocess.TimeoutExpired:
        return {'text': text, 'args': args[1:], 'timeout': True}
    err = p.stderr.decode(errors='replace')
    # the loader's steps (the binary may print other verification events, e.g. the compiler's call classification)
    ev = [[l.split()[1], int(l.split()[2])] for l in err.splitlines() if l.startswith('JAQ_VERIF ') and l.split()[1] in ('Enter', 'Exit', 'Reuse', 'Cycle')]
    return {'text': text, 'args': args[1:], 'rc': p.returncode, 'out': p.stdout.decode(errors='replace'), 'ev': ev,
            'err': '\n'.join(l for l in err.splitlines() if not l.startswith('JAQ_VERIF '))[:400]}


def expected(out):
    """(status, stdout) prescribed by an outcome; None where the specification leaves it open"""
    if out['k'] in ('loaderr', 'compileerr'):
        return 3, ''
    s = out['s']
    if any(v['t'] in ('ierr', 'oneof', 'fx') for v in s['o']) or s['e']['k'] not in ('ok', 'err'):
        return None
    return (0 if s['e']['k'] == 'ok' else 5), ''.join(val_text(v) + '\n' for v in s['o'])


def check_case(case, root, jaq):
    """-> list of mismatches"""
    layout(case, root, jaq)
    bad = []
    for i, pr in enumerate(case['probes']):
        exp = expected(pr['out'])
        r = run_probe(case, root, pr['body'])
        if r.get('timeout'):
            bad.append({'what': 'did not terminate', 'run': r, 'probe': pr})
            continue
        # the hook reports every step of the loader except failed reads
        if i == 0 and r['ev'] != [[e[0], e[1]] for e in case['ev'] if e[0] != 'ReadErr']:
            bad.append({'what': f"loader steps {r['ev']}, specified {case['ev']}", 'run': r, 'probe': pr})
        if exp is None:
            continue
        if (r['rc'], r['out']) != exp:
            bad.append({'what': f"status {r['rc']} output {r['out']!r}, specified status {exp[0]} output {exp[1]!r} ({pr['out']['k']})", 'run': r, 'probe': pr})
    return bad

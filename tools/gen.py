#!/usr/bin/env python3
"""Seeded random generators of well-scoped programs and values (beyond TLC's exhaustive bounds).
The trees use the interchange encoding of DESIGN 2.2; the harness prints and runs them, TLC judges the traces."""
import json, random, zlib


# ---------------------------------------------------------------- values
def V_null(): return {'t': 'null'}
def V_bool(b): return {'t': 'bool', 'b': b}
def V_int(n): return {'t': 'int', 'n': n}
def V_str(s): return {'t': 'str', 'c': [ord(c) for c in s]}
def V_arr(a): return {'t': 'arr', 'a': a}
def V_obj(kvs): return {'t': 'obj', 'o': [[k, v] for k, v in kvs], 'uo': False}


def rand_value(rng, depth=2):
    r = rng.random()
    if depth <= 0 or r < 0.45:
        return rng.choice([V_null(), V_bool(True), V_bool(False), V_int(0), V_int(1), V_int(2), V_int(-1), V_int(3),
                           V_str(''), V_str('a'), V_str('b'), V_str('ab')])
    if r < 0.75:
        return V_arr([rand_value(rng, depth - 1) for _ in range(rng.randint(0, 3))])
    keys = rng.sample(['a', 'b', 'c'], rng.randint(0, 3))
    return V_obj([(V_str(k), rand_value(rng, depth - 1)) for k in keys])


# ---------------------------------------------------------------- terms
def T(k, **kw):
    d = {'k': k}
    d.update(kw)
    return d


ID = T('id')
def num(n): return T('num', n=n)
def s(txt): return T('str', parts=[{'p': 's', 'c': [ord(c) for c in txt]}] if txt else [])
def call(f, *args): return T('call', f=f, args=list(args))
def bin_(op, l, r): return T('bin', op=op, l=l, r=r)
def var(x): return T('var', x=x)
def idx(i, opt=False): return {'p': 'idx', 'i': i, 'opt': opt}
def it(opt=False): return {'p': 'rng', 'hi': False, 'hj': False, 'opt': opt}
def rng_(i, j, opt=False):
    d = {'p': 'rng', 'hi': i is not None, 'hj': j is not None, 'opt': opt}
    if i is not None: d['i'] = i
    if j is not None: d['j'] = j
    return d
def path(l, *parts): return T('path', l=l, parts=list(parts))


class Scope:
    def __init__(self, vs=(), ls=(), fs=()):
        self.vs, self.ls, self.fs = list(vs), list(ls), list(fs)   # fs: (name, [param kinds 'v'/'f'])

    def plus(self, vs=(), ls=(), fs=()):
        return Scope(self.vs + list(vs), self.ls + list(ls), self.fs + list(fs))


class Gen:
    def __init__(self, rng, profile='core'):
        self.rng = rng
        self.profile = profile
        self.counter = 0

    def fresh(self, base):
        # few names, so that shadowing happens
        return self.rng.choice(base)

    def leaf(self, sc):
        r = self.rng
        opts = [ID, ID, num(r.choice([0, 1, 2, 3])), s(r.choice(['a', 'b', ''])), call('null'), call('true'), call('false')]
        opts += [var(x) for x in sc.vs] * 2
        opts += [T('break', x=l) for l in sc.ls]
        opts += [call(n) for n, ps in sc.fs if not ps] * 2
        opts += [path(ID, idx(num(r.choice([0, 1, -1])))), path(ID, idx(s(r.choice(['a', 'b'])))), path(ID, it()),
                 path(ID, it(True)), call('empty'), call('error')]
        if r.random() < 0.1:
            opts += [T('recurse'), T('arr'), T('obj', es=[])]
        return r.choice(opts)

    def pattern(self):
        r = self.rng
        x = r.random()
        if x < 0.7:
            n = self.fresh(['x', 'y', 'z'])
            return {'p': 'var', 'x': n}, [n]
        if x < 0.85:
            ps, vs = [], []
            for _ in range(r.randint(1, 2)):
                p, v = self.pattern()
                ps.append(p); vs += v
            return {'p': 'arr', 'ps': ps}, vs
        es, vs = [], []
        for _ in range(r.randint(1, 2)):
            p, v = self.pattern()
            es.append({'key': s(r.choice(['a', 'b'])), 'pat': p}); vs += v
        return {'p': 'obj', 'es': es}, vs

    def term(self, size, sc):
        r = self.rng
        if size <= 1:
            return self.leaf(sc)
        x = r.random()
        a = r.randint(1, max(1, size - 2))
        b = max(1, size - 1 - a)
        if x < 0.16:
            return bin_('|', self.term(a, sc), self.term(b, sc))
        if x < 0.28:
            return bin_(',', self.term(a, sc), self.term(b, sc))
        if x < 0.40:
            p, vs = self.pattern()
            return T('as', l=self.term(a, sc), pat=p, r=self.term(b, sc.plus(vs=vs)))
        if x < 0.48:
            op = r.choice(['+', '+', '-', '*', '==', '<', '!=', '>=', 'and', 'or', '//'])
            return bin_(op, self.term(a, sc), self.term(b, sc))
        if x < 0.54:
            return T('arr', f=self.term(size - 1, sc))
        if x < 0.58:
            es = [{'key': s(k), 'val': self.term(max(1, (size - 1) // 2), sc)} for k in r.sample(['a', 'b', 'c'], r.randint(1, 2))]
            return T('obj', es=es)
        if x < 0.63:
            l = self.fresh(['l', 'm'])
            return T('label', x=l, f=self.term(size - 1, sc.plus(ls=[l])))
        if x < 0.69:
            c = size // 3 or 1
            return T('if', c=self.term(c, sc), t=self.term(c, sc), e=self.term(max(1, size - 1 - 2 * c), sc))
        if x < 0.74:
            return T('try', f=self.term(a, sc), c=self.term(b, sc) if r.random() < 0.6 else call('empty'))
        if x < 0.80:
            p, vs = self.pattern()
            c = size // 3 or 1
            d = dict(name=r.choice(['reduce', 'foreach']), xs=self.term(c, sc), pat=p, init=self.term(c, sc),
                     upd=self.term(max(1, size - 1 - 2 * c), sc.plus(vs=vs)))
            if d['name'] == 'foreach' and r.random() < 0.4:
                d['proj'] = self.term(2, sc.plus(vs=vs))
            return T('fold', **d)
        if x < 0.90:
            return self.definition(size, sc)
        if x < 0.95:
            # call of a definition with arguments
            cands = [(n, ps) for n, ps in sc.fs if ps]
            if cands:
                n, ps = r.choice(cands)
                per = max(1, (size - 1) // len(ps))
                return call(n, *[self.term(per, sc) for _ in ps])
            return self.leaf(sc)
        if x < 0.97:
            # string interpolation
            return T('str', parts=[{'p': 's', 'c': [ord('<')]}, {'p': 'f', 'f': self.term(size - 1, sc)}, {'p': 's', 'c': [ord('>')]}])
        # library calls of the modelled fragment
        f = r.choice(['first', 'last', 'isempty', 'add', 'select', 'map', 'recurse_down'])
        if f == 'recurse_down':
            return call('limit', num(r.randint(0, 3)), call('repeat', self.term(max(1, size - 3), sc)))
        return call(f, self.term(size - 1, sc))

    def definition(self, size, sc):
        r = self.rng
        name = self.fresh(['f', 'g', 'h'])
        kind = r.random()
        a = max(1, (size - 1) // 2)
        b = max(1, size - 1 - a)
        if kind < 0.35:
            params = []
        elif kind < 0.6:
            params = [('x', 'v')]
        elif kind < 0.85:
            params = [('a', 'f')]
        else:
            params = [(r.choice(['x', 'y']), 'v'), ('a', 'f')] if r.random() < 0.5 else [('a', 'f'), ('y', 'v')]
        kinds = [k for _, k in params]
        inner = sc.plus(vs=[n for n, k in params if k == 'v'],
                        fs=[(n, []) for n, k in params if k == 'f'] + [(name, kinds)])
        if r.random() < 0.35:
            # terminating recursion on a counter: body = if . <= 0 then E else (. - 1 | name(args)) end
            rec = call(name, *[(var(n) if k == 'v' else call(n)) for n, k in params])
            step = bin_('|', bin_('-', ID, num(1)), rec)
            shapes = [step, bin_(',', ID, step), bin_('|', self.term(1, inner), step) if False else bin_(',', step, ID)]
            body = T('if', c=bin_('<=', ID, num(0)), t=self.term(max(1, a - 4), inner), e=r.choice(shapes))
            rest = bin_('|', num(r.randint(0, 3)), self.term(b, sc.plus(fs=[(name, kinds)])))
        else:
            # non-recursive body: the definition is not visible as itself (avoid accidental divergence)
            inner_nr = sc.plus(vs=[n for n, k in params if k == 'v'], fs=[(n, []) for n, k in params if k == 'f'])
            body = self.term(a, inner_nr)
            rest = self.term(b, sc.plus(fs=[(name, kinds)]))
        d = {'name': name, 'params': [{'n': n, 'var': k == 'v'} for n, k in params], 'body': body}
        return T('def', defs=[d], r=rest)

    # ------------------------------------------------------------ path expressions (C02)
    def pathexpr(self, size, sc):
        r = self.rng
        if size <= 1:
            return r.choice([ID, T('recurse'), path(ID, it()), path(ID, it(True)), path(ID, idx(num(0))), path(ID, idx(num(-1))),
                             path(ID, idx(num(1), True)), path(ID, idx(s('a'))), path(ID, idx(s('b'), True)),
                             path(ID, rng_(num(1), None)), path(ID, rng_(None, num(1))), path(ID, rng_(num(0), num(-1))),
                             call('empty'), call('first'), path(ID, idx(s('a')), it(True))]
                            + [path(ID, idx(var(x))) for x in sc.vs])
        x = r.random()
        a = r.randint(1, max(1, size - 2))
        b = max(1, size - 1 - a)
        if x < 0.3:
            return bin_('|', self.pathexpr(a, sc), self.pathexpr(b, sc))
        if x < 0.42:
            return bin_(',', self.pathexpr(a, sc), self.pathexpr(b, sc))
        if x < 0.5:
            return bin_('//', self.pathexpr(a, sc), self.pathexpr(b, sc))
        if x < 0.6:
            n = self.fresh(['x', 'y'])
            return T('as', l=r.choice([num(0), num(1), s('a'), bin_(',', num(0), num(1)), call('keys_unsorted') if False else num(-1)]),
                     pat={'p': 'var', 'x': n}, r=self.pathexpr(size - 2, sc.plus(vs=[n])))
        if x < 0.68:
            return T('if', c=r.choice([call('true'), call('false'), bin_('==', ID, call('null')), path(ID, idx(num(0), True))]),
                     t=self.pathexpr(a, sc), e=self.pathexpr(b, sc))
        if x < 0.78:
            f = r.choice(['first', 'last', 'select', 'recurse'])
            if f == 'select':
                return call('select', r.choice([call('true'), bin_('!=', ID, call('null')), bin_('==', ID, num(0))]))
            if f == 'recurse':
                return call('recurse', path(ID, it(True)))
            return call(f, self.pathexpr(size - 1, sc))
        if x < 0.84:
            return call(r.choice(['limit', 'skip']), num(r.randint(0, 2)), self.pathexpr(size - 2, sc))
        if x < 0.9:
            n = self.fresh(['x'])
            return T('fold', name=r.choice(['reduce', 'foreach']), xs=r.choice([bin_(',', num(0), s('a')), num(0), bin_(',', num(0), num(0))]),
                     pat={'p': 'var', 'x': n}, init=ID, upd=path(ID, idx(var(n), r.random() < 0.5)))
        if x < 0.95:
            return T('try', f=self.pathexpr(size - 1, sc), c=call('empty'))
        d = {'name': 'f', 'params': [{'n': 'a', 'var': False}], 'body': bin_('|', call('a'), self.pathexpr(1, sc.plus(fs=[('a', [])])))}
        return T('def', defs=[d], r=call('f', self.pathexpr(size - 3 if size > 3 else 1, sc)))


def wrap_paths(rng, p):
    """observation modes of C02"""
    u = rng.choice([call('empty'), T('arr', f=ID), bin_(',', ID, T('arr', f=ID)), call('error'), num(5),
                    bin_('|', ID, T('arr', f=ID))])
    w = rng.choice([num(7), bin_(',', num(7), call('null')), T('arr', f=num(1)), call('empty')])
    m = rng.random()
    if m < 0.2:
        return T('arr', f=call('path', p))
    if m < 0.35:
        return T('arr', f=call('getpath', call('path', p)))
    if m < 0.45:
        return T('arr', f=call('path_value', p))
    if m < 0.7:
        return bin_('|=', p, u)
    if m < 0.8:
        return bin_('=', p, w)
    if m < 0.9:
        return bin_(rng.choice(['+=', '//=', '-=', '*=']), p, w)
    if m < 0.95:
        return call('del', p)
    return T('arr', f=p)


SUGAR = [
    # shorthand, written so that TLC judges the real run against the EXPANSION the manual gives (the harness
    # normalises: missing else = else ., elif chains, {a} = {a: .a}, {$x} = {x: $x}, f? = try f)
    '.a.b', '."a"', '.["a"]', '.a[]', '.a?', '.a[]?', '..', '{a}', '{a, b}', '1 as $x | {$x}', '{"a\\(1,2)": 3}', '{(.a): 1}', '{("a","b"): (1,2)}',
    '{if: 1} | .if', '{and: 1, or: 2} | .and, .or', 'if .a then 1 elif .b then 2 else 3 end', 'if .a then 1 end', 'if .a then 1 elif .b then 2 end',
    '"x\\(.a)y\\(.b)"', '@json "v=\\(.a)"', '@text "v=\\(.a)"', 'def f($x): $x + 1; f(1, 2)', 'def f(g; $x): [g, $x]; f(.a; 1, 2)',
    '. as [$a, $b] | [$b, $a]', '. as {a: $x} | $x', '. as {$a} | $a', '. as {a: [$x, $y]} | [$x, $y]', '. as {("a","b"): $x} | $x',
    'reduce (1,2,3) as $x (0; . + $x)', 'foreach (1,2,3) as $x (0; . + $x)', 'foreach (1,2,3) as $x (0; . + $x; [$x, .])',
    'try error("x")', 'try error("x") catch .', '(1, error("x"), 2)?', '[.[]?]', '-(1,2)', '-.a', 'try -.a? catch 7', '.a?.b', '.[1:][0]', '.a as $x | $x',
    '1, 2 as $x | [$x]', '0 as $x | 1 | $x', 'label $x | 1, break $x, 2', '[limit(3; repeat(0))]', '.a // "d"', '.a = 1', '.a |= . + 1', '.a += 1',
    '[.[] | . * 2]', 'map(. + 1)?', 'to_entries', 'with_entries(.value |= . + 1)?', 'path(..)', '[paths]', 'del(.a)', 'keys', 'length', 'add', 'any', 'all',
    '.[0]', '.[-1]', '.[1:]', '.[:1]', 'first', 'last', 'nth(1)', 'has("a")', 'select(.a)', 'recurse', 'tostring', 'tojson', 'type', 'not', 'isempty(.[]?)',
]


def sugar_cases(path):
    inputs = [V_null(), V_obj([(V_str('a'), V_int(1)), (V_str('b'), V_arr([V_int(2), V_null()]))]), V_arr([V_int(1), V_arr([V_int(2)]), V_str('a')]),
              V_obj([(V_str('a'), V_str('b')), (V_str('b'), V_int(0))]), V_int(3), V_str('ab')]
    with open(path, 'w') as f:
        k = 0
        for t in SUGAR:
            for i in inputs:
                k += 1
                f.write(json.dumps({'id': f'sugar-{k}', 'text': t.replace('\\\\', '\\'), 'input': i}) + '\n')


REJECTS = ['', '1 +', '+ 1', '()', '{(1)}', '{a: 1 2}', 'reduce . as $x (1)', 'foreach . as $x (1; 2; 3; 4)', 'reduce . as $x (1; 2; 3)', 'if 1 then 2', 'if 1 else 2 end',
           '. as [$x;] | 1', '. as | 1', 'def f: 1', 'def f(): 1; f', 'def f: 1; ', ')', '(', '1 2', '.[', '.[1', '[1', '{', 'try', 'try catch 1', 'label | 1', 'label $x 1',
           'break', 'break x', '$', '1 as x | 1', '1 as $x', '.a.', '.."a"', 'f(', 'f(1;)', 'f(;1)', '1 ? ? +', '1 || 2', '1 && 2', '1 === 2', '1 =! 2', '@', '"abc', '"\\q"',
           '1 | | 2', '1 , , 2', 'a::', '::a', 'import "a" as $x; 1 2', 'else', 'then', 'end', 'elif', 'catch', 'as', 'and', 'or 1', '1 and', 'not 1', '.a b', '$x $y',
           'undefined_filter_xyz', '$undefined_var', 'break $undefined_label', 'f(1)', 'def f(g): g; f', 'def f: 1; f(2)', 'mod::f', '1 as $x | $y', 'label $a | break $b',
           'reduce . as $x (0; .) | $x', 'def f($a): 1; $a', '{$undefined_var}', '. as [$a] | $b']


def write_cases(path, seed, n, profile='core'):
    rng = random.Random(seed * 7919 + zlib.crc32(profile.encode()) % 1000)
    g = Gen(rng, profile)
    with open(path, 'w') as f:
        for i in range(n):
            if profile == 'core':
                size = rng.randint(4, 22)
                prog = g.term(size, Scope())
            elif profile == 'paths':
                size = rng.randint(2, 8)
                prog = wrap_paths(rng, g.pathexpr(size, Scope()))
            else:
                raise ValueError(profile)
            inp = rand_value(rng, 2)
            f.write(json.dumps({'id': f'{profile}-{seed}-{i}', 'prog': prog, 'input': inp}) + '\n')


if __name__ == '__main__':
    import sys
    write_cases(sys.argv[1], int(sys.argv[2]), int(sys.argv[3]), sys.argv[4] if len(sys.argv) > 4 else 'core')

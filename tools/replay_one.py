#!/usr/bin/env python3
"""replay_one.py <replay file>: re-run the failing case of a VIOLATION line on the current tree."""
import json, sys, os, subprocess
sys.path.insert(0, os.path.dirname(os.path.abspath(__file__)))
import vlib
vlib.build_harness()
rec = json.load(open(sys.argv[1]))
r = rec.get('record', {})
print('property', rec.get('property'), '--', rec.get('what', '')[:400])
vec = r.get('vec')
if vec:
    p = os.path.join(vlib.WORK, 'replay-one.ndjson')
    open(p, 'w').write(json.dumps(vec) + '\n')
    out = p + '.out'
    subprocess.run([vlib.HARNESS, 'replay', p, out, '1'])
    print(open(out).read()[:2000])
    sys.exit(1 if '"ok":false' in open(out).read() else 0)
print(json.dumps(r)[:2000])

#!/usr/bin/env python3
"""replay_one.py <replay file>: re-run the failing case of a VIOLATION line on the current tree.
Exit 1 if the case still fails, 0 if it passes now, 2 if this kind of record can only be shown."""
import json, sys, os, subprocess, shutil
sys.path.insert(0, os.path.dirname(os.path.abspath(__file__)))
import vlib
rec = json.load(open(sys.argv[1]))
r = rec.get('record', {})
print('property', rec.get('property'), '--', rec.get('what', '')[:600])
vec = r.get('vec')
if vec and 'prog' in vec and 'expect' in vec and vec.get('mode') != 'tailrec':
    # a TLC-generated vector: replay it on the library
    vlib.build_harness()
    p = os.path.join(vlib.WORK, 'replay-one.ndjson')
    open(p, 'w').write(json.dumps(vec) + '\n')
    out = p + '.out'
    subprocess.run([vlib.HARNESS, 'replay', p, out, '1'])
    print(open(out).read()[:2000])
    sys.exit(1 if '"ok":false' in open(out).read() else 0)
if vec and vec.get('mode') == 'tailrec':
    # a tail-recursion measurement
    vlib.build_harness()
    p = os.path.join(vlib.WORK, 'replay-one.ndjson')
    open(p, 'w').write(json.dumps(vec) + '\n')
    out = p + '.out'
    os.environ['HARNESS_TIMEOUT'] = '600'
    subprocess.run([vlib.HARNESS, 'replay', p, out, '1'])
    res = open(out).read()
    print(res[:2000])
    j = json.loads(res.splitlines()[0])
    bad = not j.get('ok') or (vec.get('heap') and j['m'][1]['peak'] - j['m'][0]['peak'] > 65536)
    sys.exit(1 if bad else 0)
if 'case' in r and 'run' in r and 'probes' in r.get('case', {}):
    # a module case: lay it out in real directories and run every probe
    import modules
    jaq = vlib.build_jaq_hooked()
    root = os.path.join(vlib.WORK, 'replay-one-modtree')
    bad = modules.check_case(r['case'], root, jaq)
    for b in bad:
        print('STILL FAILS:', b['what'][:400])
    print('files are under', root)
    sys.exit(1 if bad else 0)
if 'case' in r and 'text' in r.get('case', {}):
    # a case of the sys driver (totality / system calls): run it alone
    vlib.build_harness()
    d = os.path.join(vlib.WORK, 'replay-one-sys')
    shutil.rmtree(d, ignore_errors=True)
    os.makedirs(d)
    cp, op = os.path.join(d, 'cases.ndjson'), os.path.join(d, 'out.ndjson')
    open(cp, 'w').write(json.dumps(r['case']) + '\n')
    p = subprocess.run([vlib.HARNESS, 'sys', 'run', cp, op, '0', 'lazy'], cwd=d, stdout=subprocess.PIPE, stderr=subprocess.PIPE, text=True)
    out = open(op).read() if os.path.exists(op) else ''
    print(out[:1000] or f'the process died: status {p.returncode}: {p.stderr[-500:]}')
    ok = out and json.loads(out.splitlines()[0])['end'] not in ('panic',)
    print('(system-call violations are only visible under the tracer: python3 tools/vcheck.py C06 quick)')
    sys.exit(0 if ok else 1)
print(json.dumps(r)[:3000])
sys.exit(2)

#!/usr/bin/env python3
"""Shared machinery of the checks: building, running TLC, vectors, replay, evidence, findings."""
import json, os, re, subprocess, sys, time, shutil, hashlib

ROOT = os.path.dirname(os.path.dirname(os.path.abspath(__file__)))
SPEC = os.path.join(ROOT, 'spec')
WORK = os.path.join(ROOT, 'work')
HARNESS_DIR = os.path.join(ROOT, 'harness')
HARNESS = os.path.join(HARNESS_DIR, 'target', 'release', 'jaq-verif-harness')
JAQ_TARGET = os.path.join(ROOT, 'work', 'jaq-target')
JAQ = os.path.join(JAQ_TARGET, 'release', 'jaq')
EVIDENCE = os.path.join(ROOT, 'evidence')
FINDINGS = os.path.join(ROOT, 'known_findings.txt')

ENV = dict(os.environ, CARGO_NET_OFFLINE='true')


class ToolError(Exception):
    pass


def sh(cmd, **kw):
    return subprocess.run(cmd, shell=isinstance(cmd, str), **kw)


def build_harness():
    """Rebuild the harness (and with it jaq's library crates) from /repo's working tree."""
    os.makedirs(WORK, exist_ok=True)
    if not os.path.exists(os.path.join(HARNESS_DIR, 'Cargo.lock')):
        shutil.copy('/repo/Cargo.lock', os.path.join(HARNESS_DIR, 'Cargo.lock'))
    r = sh(['cargo', 'build', '--release', '--offline'], cwd=HARNESS_DIR, env=ENV,
           stdout=subprocess.PIPE, stderr=subprocess.STDOUT, text=True)
    if r.returncode != 0:
        raise ToolError('harness build failed:\n' + r.stdout[-4000:])
    return HARNESS


def build_jaq():
    """Build the jaq binary from /repo's working tree into /verif/work (overflow checks on)."""
    env = dict(ENV, CARGO_TARGET_DIR=JAQ_TARGET,
               CARGO_PROFILE_RELEASE_DEBUG_ASSERTIONS='true',
               CARGO_PROFILE_RELEASE_OVERFLOW_CHECKS='true',
               CARGO_PROFILE_RELEASE_STRIP='false',
               CARGO_PROFILE_RELEASE_CODEGEN_UNITS='16',
               CARGO_PROFILE_RELEASE_OPT_LEVEL='1')
    r = sh(['cargo', 'build', '--release', '--offline', '-p', 'jaq'], cwd='/repo', env=env,
           stdout=subprocess.PIPE, stderr=subprocess.STDOUT, text=True)
    if r.returncode != 0:
        raise ToolError('jaq build failed:\n' + r.stdout[-4000:])
    return JAQ


JAQ_HOOK_TARGET = os.path.join(WORK, 'jaq-hook-target')
JAQ_HOOK = os.path.join(JAQ_HOOK_TARGET, 'release', 'jaq')


def build_jaq_hooked():
    """The jaq binary with the verification hooks of /repo switched on (--cfg jaq_verif)."""
    env = dict(ENV, CARGO_TARGET_DIR=JAQ_HOOK_TARGET, RUSTFLAGS='--cfg jaq_verif',
               CARGO_PROFILE_RELEASE_DEBUG_ASSERTIONS='true',
               CARGO_PROFILE_RELEASE_OVERFLOW_CHECKS='true',
               CARGO_PROFILE_RELEASE_STRIP='false',
               CARGO_PROFILE_RELEASE_CODEGEN_UNITS='16',
               CARGO_PROFILE_RELEASE_OPT_LEVEL='1')
    r = sh(['cargo', 'build', '--release', '--offline', '-p', 'jaq'], cwd='/repo', env=env,
           stdout=subprocess.PIPE, stderr=subprocess.STDOUT, text=True)
    if r.returncode != 0:
        raise ToolError('hooked jaq build failed:\n' + r.stdout[-4000:])
    return JAQ_HOOK


def build_all():
    build_harness()
    build_jaq()


# ---------------------------------------------------------------------------- TLC

def unescape_tla(s):
    out = []
    i = 0
    while i < len(s):
        c = s[i]
        if c == '\\' and i + 1 < len(s):
            n = s[i + 1]
            out.append({'n': '\n', 't': '\t', 'r': '\r', 'f': '\f'}.get(n, n))
            i += 2
        else:
            out.append(c)
            i += 1
    return ''.join(out)


def run_tlc(module, cfg, name, constants=None, workers=8, timeout=1500, env_extra=None, xss='1g', heap=None):
    """Run TLC on spec/<module>.tla with spec/<cfg> (a cfg file name or cfg text).
    Returns dict(out, states, distinct, vecs, ok, violation)."""
    meta = os.path.join(WORK, 'tlc-' + name)
    shutil.rmtree(meta, ignore_errors=True)
    os.makedirs(meta, exist_ok=True)
    if '\n' in cfg:
        cfgpath = os.path.join(meta, name + '.cfg')
        open(cfgpath, 'w').write(cfg)
    else:
        cfgpath = os.path.join(SPEC, cfg)
    env = dict(os.environ)
    env.pop('JAVA_TOOL_OPTIONS', None)
    # same command line as the `tlc` wrapper, plus -Xss on the launcher's command line: JAVA_TOOL_OPTIONS would not
    # reach the main thread, which evaluates initial states and their invariants
    java = ['java', f'-Xss{xss}', '-XX:+UseParallelGC'] + ([f'-Xmx{heap}'] if heap else []) + \
           ['-cp', '/opt/veriftools/tla/tla2tools.jar:/opt/veriftools/tla/CommunityModules-deps.jar', 'tlc2.TLC']
    if env_extra:
        env.update(env_extra)
    outpath = os.path.join(meta, 'tlc.out')
    t0 = time.time()
    with open(outpath, 'w') as f:
        r = sh(['timeout', str(timeout)] + java + ['-workers', str(workers), '-metadir', os.path.join(meta, 'states'),
                '-cleanup', '-noGenerateSpecTE', '-config', cfgpath, os.path.join(SPEC, module + '.tla')],
               cwd=SPEC, env=env, stdout=f, stderr=subprocess.STDOUT)
    wall = time.time() - t0
    out = open(outpath, errors='replace').read()
    res = {'out': outpath, 'wall': wall, 'rc': r.returncode, 'states': 0, 'distinct': 0}
    m = re.search(r'(\d+) states generated, (\d+) distinct states found', out)
    if m:
        res['states'] = int(m.group(1))
        res['distinct'] = int(m.group(2))
    res['completed'] = 'Model checking completed. No error has been found.' in out
    res['invariant_violated'] = re.findall(r'Invariant (\w+) is violated', out)
    if 'Temporal properties were violated' in out:
        res['invariant_violated'].append('temporal-property')
    if r.returncode == 124:
        raise ToolError(f'TLC timed out after {timeout}s on {module}/{name}')
    if not res['completed'] and not res['invariant_violated']:
        tail = '\n'.join(l for l in out.splitlines() if not l.startswith(('Linting', 'Semantic', 'Parsing')))[-3000:]
        if 'POSTCONDITION' in out.upper() or 'Postcondition' in out:
            res['postcondition_failed'] = True
        else:
            raise ToolError(f'TLC failed on {module}/{name}:\n{tail}')
    return res


def tagged_lines(outpath, tag):
    """Yield the payloads of PrintT(<<"TAG", "json">>) lines."""
    pre = f'<<"{tag}", "'
    with open(outpath, errors='replace') as f:
        for line in f:
            if line.startswith(pre):
                body = line.rstrip('\n')
                if not body.endswith('">>'):
                    continue
                yield unescape_tla(body[len(pre):-3])


def tuple_lines(outpath, tag):
    """Yield PrintT(<<"TAG", a, b, ...>>) lines with simple string fields as lists."""
    pre = f'<<"{tag}", '
    with open(outpath, errors='replace') as f:
        for line in f:
            if line.startswith(pre):
                yield re.findall(r'"((?:[^"\\]|\\.)*)"', line)[1:]


# ---------------------------------------------------------------------------- replay

def write_vectors(payloads, path, prefix, extra=None):
    n = 0
    with open(path, 'w') as f:
        for p in payloads:
            j = json.loads(p)
            n += 1
            j['id'] = f'{prefix}{n}'
            if extra:
                j.update(extra)
            f.write(json.dumps(j, separators=(',', ':')) + '\n')
    return n


def replay(vectors, results, jobs=12):
    r = sh([HARNESS, 'replay', vectors, results, str(jobs)], stdout=subprocess.PIPE, stderr=subprocess.PIPE, text=True)
    if r.returncode != 0:
        raise ToolError('harness replay failed: ' + r.stderr[-2000:])
    bad, ok, definite, skipped = [], 0, 0, 0
    with open(results) as f:
        for line in f:
            j = json.loads(line)
            if j.get('ok'):
                ok += 1
                if j.get('definite'):
                    definite += 1
                if 'skipped' in j:
                    skipped += 1
            else:
                bad.append(j)
    return {'ok': ok, 'definite': definite, 'skipped': skipped, 'bad': bad}


def record(cases, trace, jobs=12):
    r = sh([HARNESS, 'record', cases, trace, str(jobs)], stdout=subprocess.PIPE, stderr=subprocess.PIPE, text=True)
    if r.returncode != 0:
        raise ToolError('harness record failed: ' + r.stderr[-2000:])


# ---------------------------------------------------------------------------- findings / evidence

def load_findings():
    out = []
    if os.path.exists(FINDINGS):
        for l in open(FINDINGS):
            l = l.strip()
            if l.startswith('{'):
                out.append(json.loads(l))
    return out


class Check:
    """Accumulates what one check run covered and decides the exit status."""

    def __init__(self, pid, tier, level='model_checking'):
        self.pid = pid
        self.tier = tier
        self.level = level
        self.seed = int(os.environ.get('VERIF_SEED', '0') or 0)
        self.t0 = time.time()
        self.states = 0
        self.transitions = 0
        self.traces = 0
        self.evaluations = 0
        self.nontrivial = set()
        self.samples = []
        self.violations = []     # (what, replay record)
        self.known = []
        self.assumptions = []
        self.extra = {}
        self.rule = ''
        self.nontrivial_rule = ('a case counts as non-trivial if the specification expects at least one output or an error from it and its program has at least three nodes '
                                '(replay suites), or if it is a distinct terminated behaviour / recorded run / scenario of the state machine at hand')
        self.findings = [f for f in load_findings() if f.get('property') == pid and f.get('status', 'open') == 'open']

    def add_tlc(self, res):
        self.states += res['distinct']
        self.transitions += max(res['states'] - 0, 0)

    def sample(self, s, limit=6):
        if len(self.samples) < limit:
            self.samples.append(s)

    def violation(self, key, what, record):
        """key: stable identification of the failing case (matched against known findings)."""
        for f in self.findings:
            if f.get('key') == key or (f.get('match') and re.search(f['match'], key)):
                if (key, f['what']) not in [(k, w) for k, w in self.known]:
                    self.known.append((key, f['what']))
                return
        self.violations.append((key, what, record))

    def finish(self):
        os.makedirs(EVIDENCE, exist_ok=True)
        wall = time.time() - self.t0
        cov = {
            'states': self.states,
            'transitions': self.transitions,
            'traces_validated_against_impl': self.traces,
            'evaluations': self.evaluations,
            'distinct_nontrivial': len(self.nontrivial) if isinstance(self.nontrivial, set) else int(self.nontrivial),
            'rule': self.rule + ' Non-trivial: ' + self.nontrivial_rule + '.',
            'samples': self.samples or ['(no sample recorded)'],
        }
        cov.update(self.extra)
        ev = {'property_id': self.pid, 'tier': self.tier, 'seed': self.seed, 'level': self.level,
              'coverage': cov, 'assumptions': self.assumptions, 'wall_s': round(wall, 1),
              'violations': len(self.violations)}
        # one line per listed finding (with the cases of this run it accounts for)
        by_what = {}
        for key, what in self.known:
            by_what.setdefault(what, []).append(key)
        for what, keys in by_what.items():
            print(f'KNOWN-FINDING: property={self.pid} {what} [{len(keys)} case(s): {", ".join(keys[:12])}{" ..." if len(keys) > 12 else ""}]')
        ev['known_findings'] = [{'what': w, 'cases': k} for w, k in by_what.items()]
        rc = 0
        if self.violations:
            rdir = os.path.join(WORK, 'replay')
            os.makedirs(rdir, exist_ok=True)
            for i, (key, what, rec) in enumerate(self.violations[:20]):
                path = os.path.join(rdir, f'{self.pid}-{self.tier}-{i}.json')
                json.dump({'property': self.pid, 'key': key, 'what': what, 'record': rec}, open(path, 'w'), indent=1)
                print(f'VIOLATION property={self.pid} replay={path}')
                print(f'  {what}'[:600])
            rc = 1
        json.dump(ev, open(os.path.join(EVIDENCE, f'{self.pid}.json'), 'w'), indent=1)
        print(f'{self.pid} {self.tier}: states={self.states} evaluations={self.evaluations} traces={self.traces} '
              f'violations={len(self.violations)} known={len(self.known)} wall={wall:.0f}s')
        return rc

#!/usr/bin/env python3
"""C06 driver: run the harness `sys` driver and the real binary under strace, turn the system-call logs into events of
JaqSys (classes of paths decided here from the scenario, never from what a filter computes)."""
import json, os, re, shutil, subprocess

CALLS = ('open,openat,openat2,creat,execve,execveat,fork,vfork,clone,clone3,socket,connect,bind,listen,accept,accept4,sendto,sendmsg,'
         'unlink,unlinkat,rename,renameat,renameat2,mkdir,mkdirat,rmdir,link,linkat,symlink,symlinkat,chmod,fchmod,fchmodat,chown,fchown,lchown,fchownat,'
         'truncate,ftruncate,mknod,mknodat,kill,tkill,tgkill,ptrace,mount,umount2,setxattr,utimensat,stat,newfstatat,statx,access,faccessat,faccessat2,exit_group')
RUNTIME = re.compile(r'^(/etc/ld\.so\.|/lib|/lib64|/usr/lib|/usr/local/lib|/proc/self/|/proc/stat$|/proc/cpuinfo$|/proc/meminfo$|/sys/fs/cgroup|/sys/devices/system/cpu|/dev/urandom$|/dev/null$|/proc/sys/vm/overcommit_memory$|/sys/kernel/mm/)')
TZ = re.compile(r'^(/usr/share/zoneinfo|/etc/localtime$|/etc/timezone$|/usr/lib/zoneinfo|/usr/share/lib/zoneinfo|/etc/zoneinfo)')
TZ_FILTERS = re.compile(r'\b(localtime|strflocaltime|strptime|strftime|mktime|gmtime|todate|fromdate|date|dateadd|datesub|todateiso8601|fromdateiso8601)\b|%Z|%Q')


def strace(cmd, log, cwd=None, env=None, timeout=600, stdin=None, progress_file=None, stall_s=None):
    """run cmd under strace; with progress_file: kill everything when that file has not grown for stall_s seconds
    (returns rc None, as for a timeout)"""
    import time, signal
    full = ['strace', '-f', '-qq', '-s', '400', '-o', log, '-e', 'trace=' + CALLS] + cmd
    if progress_file is None:
        try:
            p = subprocess.run(full, cwd=cwd, env=env, stdout=subprocess.PIPE, stderr=subprocess.PIPE, timeout=timeout, input=stdin)
            return p.returncode, p.stdout, p.stderr
        except subprocess.TimeoutExpired as e:
            return None, e.stdout or b'', e.stderr or b''
    p = subprocess.Popen(full, cwd=cwd, env=env, stdout=subprocess.DEVNULL, stderr=subprocess.DEVNULL, start_new_session=True)
    t0 = t_last = time.time()
    size0 = os.path.getsize(progress_file) if os.path.exists(progress_file) else 0
    last = -1
    while p.poll() is None:
        time.sleep(0.5)
        n = os.path.getsize(progress_file) if os.path.exists(progress_file) else 0
        if n != last:
            last, t_last = n, time.time()
        # the stall clock starts with the first result (before that the driver is compiling all cases), or after 10 minutes
        elif (time.time() - t_last > stall_s and (n > size0 or time.time() - t0 > 600)) or time.time() - t0 > timeout:
            try:
                os.killpg(p.pid, signal.SIGKILL)
            except ProcessLookupError:
                pass
            p.wait()
            return None, b'', b''
    return p.returncode, b'', b''


def unesc(s):
    return s.encode('latin-1', 'backslashreplace').decode('unicode_escape', 'replace').encode('latin-1', 'replace')


def events(logtext, classify, cwd='/'):
    """strace text -> events; classify(path bytes, absolute) -> 'runtime' | 'load' | 'input' | 'tz' | 'other'"""
    evs = []
    first_exec = True
    for line in logtext.splitlines():
        m = re.match(r'^(\d+)\s+(\w+)\((.*)$', line)
        if not m:
            continue
        call, rest = m.group(2), m.group(3)
        if '<unfinished' in line:
            # the resumed half carries the result; arguments are here
            pass
        strs = re.findall(r'"((?:[^"\\]|\\.)*)"', rest)
        failed = re.search(r'=\s+-1\s+E', line) is not None
        def absolute(p):
            # lexically normalised: /usr/share/zoneinfo/../../../etc/hostname is /etc/hostname
            return os.path.normpath(p if p.startswith(b'/') else os.path.join(cwd.encode(), p))
        if call in ('stat', 'newfstatat', 'statx', 'access', 'faccessat', 'faccessat2'):
            if strs and strs[0].startswith('/jaq-verif-marker/'):
                evs.append({'ev': 'marker', 'm': strs[0][len('/jaq-verif-marker/'):]})
            continue
        if call in ('open', 'openat', 'openat2', 'creat'):
            if not strs:
                continue
            p = absolute(unesc(strs[0]))
            w = call == 'creat' or any(f in rest for f in ('O_WRONLY', 'O_RDWR', 'O_CREAT', 'O_TRUNC', 'O_APPEND'))
            evs.append({'ev': 'open', 'cls': classify(p), 'w': w, 'path': p.decode('utf-8', 'backslashreplace'), 'failed': failed})
            continue
        if call in ('execve', 'execveat'):
            if first_exec:
                first_exec = False
                continue
            evs.append({'ev': 'bad', 'what': 'proc', 'call': line[:200]})
            continue
        if call in ('clone', 'clone3'):
            if 'CLONE_THREAD' in rest:
                continue
            evs.append({'ev': 'bad', 'what': 'proc', 'call': line[:200]})
            continue
        if call in ('fork', 'vfork', 'kill', 'tkill', 'tgkill', 'ptrace'):
            if call in ('tgkill', 'tkill', 'kill') and 'SIGABRT' in rest:
                continue        # abort() of the process itself (stack overflow handler, panic = abort)
            evs.append({'ev': 'bad', 'what': 'proc', 'call': line[:200]})
            continue
        if call in ('socket', 'connect', 'bind', 'listen', 'accept', 'accept4', 'sendto', 'sendmsg'):
            evs.append({'ev': 'bad', 'what': 'net', 'call': line[:200]})
            continue
        if call == 'exit_group':
            evs.append({'ev': 'exit'})
            continue
        if call in ('fchmod', 'fchown', 'ftruncate'):
            evs.append({'ev': 'bad', 'what': 'fsmod', 'call': line[:200]})
            continue
        # everything left changes the file system
        evs.append({'ev': 'bad', 'what': 'fsmod', 'call': line[:200]})
    return evs


def base_class(p):
    s = p.decode('utf-8', 'replace')
    if RUNTIME.match(s):
        return 'runtime'
    if TZ.match(s):
        return 'tz'
    return None

#!/bin/bash
# run_all.sh [tier] : every claimed check on the current tree, one after the other; summary in work/run_all-<tier>.log
TIER=${1:-quick}
cd /verif || exit 2
LOG=work/run_all-$TIER.log
: > $LOG
for p in $(python3 -c "import json; print(' '.join(c['property_id'] for c in json.load(open('MANIFEST.json'))['checks']))"); do
  s=$(date +%s)
  python3 tools/vcheck.py $p $TIER > work/run-$p-$TIER.log 2>&1
  rc=$?
  echo "$p $TIER rc=$rc $(( $(date +%s) - s ))s $(grep -c '^VIOLATION' work/run-$p-$TIER.log) violations $(grep -c '^KNOWN-FINDING' work/run-$p-$TIER.log) known | $(tail -1 work/run-$p-$TIER.log | cut -c1-160)" | tee -a $LOG
done

#!/usr/bin/env python3
"""Extract the `x --> y` examples of the manual (docs/*.dj) as record cases."""
import re, json, sys, os, html

DOCS = '/repo/docs'
FILES = ['corelang.dj', 'advanced.dj', 'stdlib.dj', 'formats.dj', 'examples.dj', 'cli.dj', 'intro.dj']

def strip_comments(s):
    return re.sub(r'#[^\n]*', '', s)

def examples():
    out = []
    for fn in FILES:
        p = os.path.join(DOCS, fn)
        if not os.path.exists(p):
            continue
        src = open(p, encoding='utf-8').read()
        spans = []
        # fenced blocks without attributes
        for m in re.finditer(r'(?m)^(`{3,})[ \t]*\n(.*?)^\1[ \t]*$', src, re.S):
            spans.append((m.start(), m.group(2)))
        fenced = [(m.start(), m.end()) for m in re.finditer(r'(?m)^(`{3,})[ \t]*\n(.*?)^\1[ \t]*$', src, re.S)]
        # all fenced blocks (also with attributes) are removed before looking for inline code
        allf = [(m.start(), m.end()) for m in re.finditer(r'(?m)^(`{3,})[^\n]*\n(.*?)^\1[ \t]*$', src, re.S)]
        def in_fence(i):
            return any(a <= i < b for a, b in allf)
        for m in re.finditer(r'(?s)(?<!`)(`+)(?!`)(.+?)(?<!`)\1(?!`)', src):
            if in_fence(m.start()):
                continue
            spans.append((m.start(), m.group(2)))
        for pos, code in sorted(spans):
            if '-->' not in code:
                continue
            parts = code.split('-->')
            if len(parts) != 2:
                continue
            lhs = ' '.join(strip_comments(parts[0]).split())
            rhs = ' '.join(parts[1].split())
            if not lhs:
                continue
            line = src.count('\n', 0, pos) + 1
            out.append({'id': f'{fn}:{line}', 'text': lhs, 'rhs': rhs})
    return out

if __name__ == '__main__':
    ex = examples()
    for e in ex:
        print(json.dumps(e, ensure_ascii=False))
    print(len(ex), file=sys.stderr)

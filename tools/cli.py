#!/usr/bin/env python3
"""C17 driver: replay TLC-generated command-line scenarios (JaqCli) on the real jaq binary at process level."""
import json, os, subprocess, concurrent.futures as cf, threading, shutil

OPTEXT = {'dot': '.', 'inp': 'input', 'all': 'inputs', 'arr': '[inputs]', 'one': 'first(inputs)', 'two': 'limit(2; inputs)',
          'err': 'error', 'hlt': 'halt(7)', 'fls': 'false', 'nop': 'empty', 'ser': '("E\\n" | stderr | empty)'}


def concrete(vec, d):
    """files on disk: item (f, i) is the number 10 f + i, a bad item is text that does not parse"""
    paths = []
    for f, items in enumerate(vec['files'], 1):
        p = os.path.join(d, f'in{f}.json')
        with open(p, 'w') as fh:
            for i, it in enumerate(items, 1):
                fh.write(f'{10 * f + i}\n' if it == 'val' else ']\n')
        paths.append(p)
    return paths


def expected_stdout(vec):
    lines = []
    for o in vec['out']:
        if o[0] == 'v':
            lines.append(str(10 * o[1] + o[2]))
        elif o[0] == 'a':
            lines.append('[' + ','.join(str(10 * o[1] + k) for k in o[2]) + ']')
        else:
            lines.append(o[0])
    return ''.join(l + '\n' for l in lines)


def via_stdin(vec):
    return not vec['nullin'] and all(len(f) == 0 for f in vec['files'][1:])


def run_one(jaq, vec, workdir):
    d = os.path.join(workdir, f't{threading.get_ident()}')
    os.makedirs(d, exist_ok=True)
    paths = concrete(vec, d)
    filt = ', '.join(OPTEXT[o] for o in vec['script'])
    merged = 'ser' in vec['script'] and vec['status'] not in (2, 3, 5)
    cmd = [jaq, '-c'] + (['-n'] if vec['nullin'] else []) + (['-e'] if vec['estatus'] else []) + [filt] + paths
    stdin_data = None
    if vec.get('stdin'):
        # the same single input stream given on standard input instead of as a file
        stdin_data = open(paths[0], 'rb').read()
        cmd = cmd[:-len(paths)]
    try:
        r = subprocess.run(cmd, input=stdin_data, stdout=subprocess.PIPE, stderr=(subprocess.STDOUT if merged else subprocess.PIPE), timeout=30)
    except subprocess.TimeoutExpired:
        return {'ok': False, 'why': 'timeout', 'cmd': ' '.join(cmd[1:]), 'vec': vec}
    exp = expected_stdout(vec)
    if 'ser' in vec['script'] and not merged:
        exp = exp.replace('E\n', '')
    got = r.stdout.decode(errors='replace')
    if got != exp or r.returncode != vec['status']:
        return {'ok': False, 'why': f'stdout {got!r} (expected {exp!r}), exit status {r.returncode} (expected {vec["status"]})',
                'cmd': f'jaq {" ".join(cmd[1:-len(paths)])!s} ' + ' '.join('<' + ' '.join(it for it in f) + '>' for f in vec['files']), 'vec': vec}
    if vec['status'] in (2, 3, 5) and not merged and not r.stderr:
        return {'ok': False, 'why': 'an error exit without a message on stderr', 'cmd': ' '.join(cmd[1:]), 'vec': vec}
    return {'ok': True}


def replay(jaq, vecs, workdir, jobs=12):
    os.makedirs(workdir, exist_ok=True)
    with cf.ThreadPoolExecutor(max_workers=jobs) as ex:
        return list(ex.map(lambda v: run_one(jaq, v, workdir), vecs))

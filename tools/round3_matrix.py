#!/usr/bin/env python3
"""append / refresh the "Round 3" section of seeded/MATRIX.md from work/round3*.log and the confirmation logs"""
import re, json, glob, os
res = {}
for f in ['seeded/round3-results-first.log', 'seeded/round3-results.log']:
    if not os.path.exists(f): continue
    lines = open(f).read().splitlines()
    for i, l in enumerate(lines):
        m = re.match(r'^(C\d\d-\d) (C\d\d) quick rc=(\d+) (\d+) violations', l)
        if m:
            what = lines[i + 1].strip()[:170] if i + 1 < len(lines) and lines[i + 1].startswith('  ') else ''
            res[m.group(1)] = ('caught' if m.group(3) == '1' and int(m.group(4)) > 0 else 'NOT caught (rc=%s)' % m.group(3), what)
conf = {}
amap = {}
for p in ['C01', 'C02', 'C03', 'C07', 'C08', 'C09', 'C11', 'C13', 'C17', 'C18']:
    for i in (1, 2):
        for f in (('/tmp/confirm2-%s-%d.log' % (p, i),) if p in ('C03', 'C08', 'C09', 'C11', 'C18') else ('/tmp/confirm-%s-%d.log' % (p, i),)):
            if os.path.exists(f) and 'demo with patch' in open(f).read():
                conf['%s-%d' % (p, i + 3)] = ' '.join(open(f).read().split('\n'))[:160]
                break
M = 'seeded/MATRIX.md'
s = open(M).read()
s = s.split('\n## Round 3')[0].rstrip('\n') + '\n'
s += '\n## Round 3 (seeds -4/-5 of C01, C02, C03, C07, C08, C09, C11, C13, C17, C18; quick check of the property on each)\n\n| seed | confirmation (scratch worktree) | quick check | first violation reported |\n|---|---|---|---|\n'
for d in sorted(glob.glob('seeded/C*-[45]')):
    k = os.path.basename(d)
    if k[:3] in ('C04', 'C10', 'C12', 'C14', 'C16', 'C20'): continue
    r = res.get(k, ('not run yet (session ended)', ''))
    s += '| %s | %s | %s | %s |\n' % (k, conf.get(k, 'by the sub-agent only (own confirmation did not finish)'), r[0], r[1].replace('|', '\\|'))
    mp = d + '/meta.json'
    try:
        m = json.load(open(mp))
    except Exception:
        m = {}
    m['check_result'] = r[0]; m['confirmed_by_main'] = conf.get(k, '')
    json.dump(m, open(mp, 'w'), indent=1)
open(M, 'w').write(s)
print(len(res), 'results', len(conf), 'confirmations')

#!/bin/bash
# confirm_seed.sh <worktree> <i> : confirm a seeded change in a scratch worktree:
#  (a) patch applies, workspace tests pass; (b) demo fails with the patch, passes without it.
set -u
WT=$1; I=$2; ARG=${3:-$1/target/debug/jaq}
cd "$WT" || exit 2
export CARGO_TARGET_DIR=$WT/target CARGO_NET_OFFLINE=true
git checkout -q -- . 
S=$WT/seeded/$I
git apply --check "$S/patch.diff" || { echo "PATCH DOES NOT APPLY"; exit 1; }
cargo build --offline -q -p jaq 2>/dev/null
bash "$S/demo.sh" "$ARG" >/dev/null 2>&1; echo "demo on clean: rc=$?"
git apply "$S/patch.diff"
T=$(cargo test --workspace --offline --no-fail-fast 2>&1 | grep -E "^test result" | awk '{p+=$4; f+=$6} END {print p" passed "f" failed"}')
echo "tests with patch: $T"
cargo build --offline -q -p jaq 2>/dev/null
bash "$S/demo.sh" "$ARG" >/dev/null 2>&1; echo "demo with patch: rc=$?"
git checkout -q -- .

#!/usr/bin/env python3
"""vcheck.py <property id> quick|thorough  --  one check of MANIFEST.json.

exit 0: the property held on everything explored; exit 1: VIOLATION line(s) printed;
exit 2: tool error / timeout (never reported as a violation)."""
import shutil, json, os, re, sys, time, random, traceback

sys.path.insert(0, os.path.dirname(os.path.abspath(__file__)))
import vlib
from vlib import Check, ToolError

W = vlib.WORK


def mc_cfg(family, maxn, modes, fuel, invariants=('WellFormed', 'Closed')):
    ms = ', '.join(f'"{m}"' for m in modes)
    inv = '\n'.join(f'INVARIANT {i}' for i in invariants)
    return f'''SPECIFICATION Spec
CONSTANTS
  Family = "{family}"
  MaxN = {maxn}
  Modes = {{{ms}}}
  FuelN = {fuel}
{inv}
CHECK_DEADLOCK FALSE
'''


def nontrivial_key(vec):
    """a vector is non-trivial if its expectation has at least one output or an error and the
    program has at least 3 nodes; distinctness = (program text, input)"""
    return json.dumps([vec.get('prog'), vec.get('input'), vec.get('mode')], sort_keys=True)


def count_nodes(t):
    if isinstance(t, dict):
        return (1 if 'k' in t else 0) + sum(count_nodes(v) for v in t.values())
    if isinstance(t, list):
        return sum(count_nodes(v) for v in t)
    return 0


def run_suite(chk, name, module, cfg, workers=12, timeout=2400, jobs=12, heap=None):
    """TLC over one configuration; every VEC line is replayed against the real code."""
    res = vlib.run_tlc(module, cfg, f'{chk.pid}-{name}', workers=workers, timeout=timeout, heap=heap)
    chk.add_tlc(res)
    for inv in res['invariant_violated']:
        chk.violation(f'spec:{name}:{inv}', f'TLC: invariant {inv} of {module} violated in configuration {name} (see {res["out"]})',
                      {'tlc_out': res['out']})
    vec = os.path.join(W, f'vec-{chk.pid}-{name}.ndjson')
    n = vlib.write_vectors(vlib.tagged_lines(res['out'], 'VEC'), vec, f'{name}-')
    if n == 0:
        raise ToolError(f'no vectors produced by {module}/{name}')
    out = os.path.join(W, f'res-{chk.pid}-{name}.ndjson')
    r = vlib.replay(vec, out, jobs=jobs)
    chk.evaluations += n
    # samples and non-trivial count
    with open(vec) as f:
        for i, line in enumerate(f):
            v = json.loads(line)
            if 'tokens' in v:
                chk.nontrivial.add(hash(line))
                if i % 4999 == 3:
                    chk.sample({'tokens': ' '.join(v['tokens']), 'parentheses': v.get('pmode'), 'tree': v['tree']})
            elif (v['expect']['o'] or v['expect']['e']['k'] == 'err') and count_nodes(v['prog']) >= 3:
                chk.nontrivial.add(hash(line))
                if i % 997 == 3:
                    chk.sample({'program': text_of(v), 'input': v.get('input'), 'vars': v.get('vars'), 'expect': v['expect']})
    for b in r['bad']:
        key = f"{b.get('text')} @ {json.dumps(b.get('vec', {}).get('input'), sort_keys=True)} {json.dumps(b.get('vec', {}).get('vars'), sort_keys=True)}"
        chk.violation(key, f"{b.get('text')}: {b.get('why')}", b)
    chk.extra.setdefault('suites', {})[name] = {'tlc_states': res['distinct'], 'vectors': n, 'definite': r['definite'],
                                                'mismatches': len(r['bad']), 'tlc_wall_s': round(res['wall'], 1)}
    return res, r


def text_of(vec):
    # cheap printer for evidence samples: ask the harness
    import subprocess
    p = os.path.join(W, 'one.ndjson')
    open(p, 'w').write(json.dumps(vec) + '\n')
    r = subprocess.run([vlib.HARNESS, 'text', p], stdout=subprocess.PIPE, text=True)
    return r.stdout.strip()


def validate_traces(chk, name, cases_path, chunks=12, timeout=1500, allow_manual=True):
    """implementation -> specification: record real runs, let TLC (Trace_Sem) accept or reject them."""
    trace_all = os.path.join(W, f'trace-{chk.pid}-{name}.ndjson')
    vlib.record(cases_path, trace_all)
    lines = [l for l in open(trace_all) if '"skipped"' not in l]
    by_id = {}
    for l in lines:
        j = json.loads(l)
        by_id[str(j['id'])] = j
    if not lines:
        raise ToolError('no trace lines recorded')
    import concurrent.futures as cf
    per = (len(lines) + chunks - 1) // chunks
    parts = [lines[i:i + per] for i in range(0, len(lines), per)]
    cfg = 'Trace_Sem.cfg'

    def one(i):
        p = os.path.join(W, f'trace-{chk.pid}-{name}-{i}.ndjson')
        open(p, 'w').write(''.join(parts[i]))
        res = vlib.run_tlc('Trace_Sem', cfg, f'{chk.pid}-{name}-tr{i}', workers=1, timeout=timeout, env_extra={'TRACE': p}, xss='1g', heap='3g')
        if res.get('postcondition_failed') or not res['completed']:
            raise ToolError(f'trace spec did not consume all lines of chunk {i}: {res["out"]}')
        return res

    with cf.ThreadPoolExecutor(max_workers=chunks) as ex:
        results = list(ex.map(one, range(len(parts))))
    verdicts = {'full': 0, 'prefix': 0, 'unsup': 0, 'reject': 0}
    for res in results:
        chk.add_tlc(res)
        for fields in vlib.tuple_lines(res['out'], 'LINE'):
            lid, v, vm = fields[0], fields[1], fields[2]
            verdicts[v] = verdicts.get(v, 0) + 1
            rec = by_id.get(lid, {})
            if v in ('full', 'prefix'):
                chk.traces += 1
            if v == 'reject':
                chk.violation(f"trace:{rec.get('text')}", f"trace rejected by JaqSem: {rec.get('text')} observed {json.dumps(rec.get('observed'))[:300]}", rec)
            if vm == 'reject' and allow_manual:
                chk.violation(f"manual:{rec.get('text')}", f"the manual's example is not a behaviour of the specification: {rec.get('text')} --> {json.dumps(rec.get('manual'))[:200]}", rec)
    chk.extra.setdefault('traces', {})[name] = dict(verdicts, lines=len(lines))
    return verdicts


def corpus_cases(path):
    import corpus
    ex = corpus.examples()
    with open(path, 'w') as f:
        for e in ex:
            f.write(json.dumps(e) + '\n')
    return len(ex)


# ------------------------------------------------------------------------------------------------
def check_C01(chk):
    q = chk.tier == 'quick'
    chk.rule = ('TLC enumerates every well-scoped program of the families binders/order up to the node bound x inputs; '
                'each state is one case whose expected stream (JaqSem) is replayed on the real library; non-trivial = '
                'at least 3 syntax nodes and at least one output or an error; distinct = distinct (program, input). '
                'Traces: manual examples and seeded random programs recorded from the real code and validated by TLC against JaqSem.')
    run_suite(chk, 'binders', 'MC_Sem', mc_cfg('binders', 5 if q else 6, ['run'], 9))
    run_suite(chk, 'order', 'MC_Sem', mc_cfg('order', 4 if q else 5, ['run'], 9))
    run_suite(chk, 'rec', 'MC_Sem', mc_cfg('rec', 3 if q else 4, ['run', 'collect'], 9))
    run_suite(chk, 'pathidx', 'MC_Sem', mc_cfg('pathidx', 2, ['run'], 6))
    cases = os.path.join(W, 'cases-C01-corpus.ndjson')
    corpus_cases(cases)
    validate_traces(chk, 'corpus', cases)
    import gen
    cases = os.path.join(W, 'cases-C01-random.ndjson')
    gen.write_cases(cases, seed=chk.seed, n=1200 if q else 8000, profile='core')
    validate_traces(chk, 'random', cases)
    chk.assumptions += ['values without general floats (only small dyadic rationals); error messages of internal errors are compared by class',
                        'fuel-bounded definitional evaluator: beyond fuel the specification says "unknown" and nothing is compared']


def check_C02(chk):
    q = chk.tier == 'quick'
    chk.rule = ('TLC enumerates every path expression of the family `paths` (atoms . .. .[] .[]? .[0] .[-1] .a .[1:] .[:1] .[0]?, '
                'wrappers first/last/limit/skip/select/recurse/getpath/try/def, | , // if as reduce foreach) up to the node bound x 3 input trees x '
                'observation modes path(p), getpath(path(p)), path_value(p), p |= u (u with 0/1/2 outputs and error), p = w, p += w, p //= w, del(p); '
                'invariant PathsAgree (getpath(path(p)) = p) is checked by TLC on the specification; every state is replayed on the real library.')
    n = 3 if q else 4
    run_suite(chk, 'read', 'MC_Sem', mc_cfg('paths', n, ['paths', 'getpath', 'pathvalue'], 6, ('WellFormed', 'Closed', 'PathsAgree')))
    run_suite(chk, 'update', 'MC_Sem', mc_cfg('paths', 3, ['upd-empty', 'upd-one', 'upd-err', 'assign', 'addassign', 'altassign', 'del'], 4))
    # updates with two outputs per path: node bound 2 in both tiers (at 3, `.. as $y | ..` under a two-output update has an expectation too large to print)
    run_suite(chk, 'update2', 'MC_Sem', mc_cfg('paths', 2, ['upd-two'], 3 if q else 4), heap='24g')
    run_suite(chk, 'pathidx', 'MC_Sem', mc_cfg('pathidx', 2, ['paths', 'getpath', 'upd-one', 'upd-empty', 'assign'], 5))
    import gen
    cases = os.path.join(W, 'cases-C02-random.ndjson')
    gen.write_cases(cases, seed=chk.seed, n=800 if q else 6000, profile='paths')
    validate_traces(chk, 'random', cases)
    chk.assumptions += ['key order of an object after a deleting update is left open (compared as a map)']


def check_C03(chk):
    q = chk.tier == 'quick'
    chk.rule = ('TLC enumerates every stream program of the families streams (run) and lazyp (path mode) up to the node bound: producers '
                'with bombs (error, divergence when the stream is built `repeat(empty) // .`, divergence when it is pulled `def d: d; d`, '
                '`repeat`) under every prefix consumer (first, limit, skip, nth, isempty, any, all, label/break, //, try, foreach/reduce); '
                'the definitional semantics cuts a stream at the consumed prefix, so a definite expectation means the bomb must not be reached; '
                'the harness pulls exactly as many items from the real iterator as the expectation defines (a hang or crash is a violation). '
                'non-trivial = the program contains a bomb and the expectation is definite.')
    run_suite(chk, 'streams', 'MC_Sem', mc_cfg('streams', 3 if q else 4, ['run'], 7))
    run_suite(chk, 'lazyp', 'MC_Sem', mc_cfg('lazyp', 3 if q else 4, ['paths', 'run'], 7))
    run_suite(chk, 'rec', 'MC_Sem', mc_cfg('rec', 2 if q else 3, ['run'], 9))
    chk.assumptions += ['bombs that consume inputs (input/inputs) are checked at the command-line level by C17 (JaqCli), not here',
                        'a real run that does not return within HARNESS_TIMEOUT seconds while the specification is definite counts as a violation (hang)']


def vals_cfg(suite, size, invariants=('WellFormed',)):
    inv = ''.join(f'INVARIANT {i}\n' for i in invariants)
    return f'SPECIFICATION Spec\nCONSTANTS\n  Suite = "{suite}"\n  Size = {size}\n{inv}CHECK_DEADLOCK FALSE\n'


def check_C10(chk):
    q = chk.tier == 'quick'
    chk.rule = ('TLC enumerates containers (all arrays over {0,1}, all text strings over {a, a-umlaut, euro, emoji, invalid byte 0xff}, byte strings, '
                'small objects with string and non-string keys, null, a number) x positions/bounds in -5..5 and null x wrongly typed positions x '
                'operations (.[i], .[i]?, has, nth, .[i:], .[:j], .[i:j], .[{start,end}], length, keys, .[], first/last, array patterns, path(..), '
                '.[i] |= u, .[i:j] |= u, .[] |= u, =, +=, del with u yielding 0/1/2 outputs, a wrong kind, an error); the expected result comes from '
                'the position model of JaqValues/JaqSem, whose internal consistency (HasIffInside, SliceIsSubSeq) TLC checks as invariants; '
                'every state is replayed on the real code. non-trivial = expectation is a value or an error (all cases); distinct = (operation, values).')
    n = 2 if q else 3
    run_suite(chk, 'read', 'MC_Vals', vals_cfg('pos-read', n, ('WellFormed', 'NoUnsup', 'HasIffInside')))
    run_suite(chk, 'slice', 'MC_Vals', vals_cfg('pos-slice', n, ('WellFormed', 'NoUnsup', 'SliceIsSubSeq')))
    run_suite(chk, 'upd', 'MC_Vals', vals_cfg('pos-upd', n, ('WellFormed', 'NoUnsup')))
    run_suite(chk, 'updslice', 'MC_Vals', vals_cfg('pos-updslice', 2 if q else 3, ('WellFormed', 'NoUnsup')))
    chk.extra['exhaustive'] = True
    chk.assumptions += ['big-integer positions are covered by C09; key order after deleting updates is left open']


def eq_cfg(group, maxn):
    return f'SPECIFICATION Spec\nCONSTANTS\n  Group = "{group}"\n  MaxN = {maxn}\nINVARIANT Holds\nINVARIANT Supported\nCHECK_DEADLOCK FALSE\n'


def check_C11(chk):
    q = chk.tier == 'quick'
    chk.rule = ('one obligation per defining equation of the manual (limit/skip, first, last, nth, isempty, any/all, add, select, error, '
                'limit as foreach+label, reduce/foreach = nested-pipe expansion with updates yielding 0/1/2 outputs or errors, range/1,2,3 = its '
                'while definition for numbers, strings, null, repeat, recurse/0,1,2, .., while, until, empty); TLC instantiates each with every argument '
                'stream of the family eqf (finite streams with errors at every position, multiplicities, empties) x counts -2..4 x inputs and checks '
                'lhs = rhs on the specification (invariant Holds); both sides of every instance are replayed on the real code, each against its expectation.')
    n = 3 if q else 5
    run_suite(chk, 'stream', 'MC_Eq', eq_cfg('stream', n))
    run_suite(chk, 'fold', 'MC_Eq', eq_cfg('fold', n))
    run_suite(chk, 'gen', 'MC_Eq', eq_cfg('gen', n))
    # the same argument streams under the bare combinators, exhaustively (value mode)
    run_suite(chk, 'streams', 'MC_Sem', mc_cfg('streams', 3 if q else 4, ['run'], 7))
    chk.extra['exhaustive'] = True
    chk.assumptions += ['counts beyond 2^31 (big integers) are covered by C09']


def order_cfg(triples, invs):
    return 'SPECIFICATION Spec\nCONSTANT Triples = %s\n%sCHECK_DEADLOCK FALSE\n' % ('TRUE' if triples else 'FALSE', ''.join(f'INVARIANT {i}\n' for i in invs))


def run_spec_only(chk, name, module, cfg, workers=12, timeout=2400):
    """TLC on a configuration whose obligations are invariants of the specification itself."""
    res = vlib.run_tlc(module, cfg, f'{chk.pid}-{name}', workers=workers, timeout=timeout)
    chk.add_tlc(res)
    for inv in res['invariant_violated']:
        import subprocess
        cex = subprocess.run(f"grep -A8 'is violated' {res['out']} | tr '\\n' ' ' | cut -c1-600", shell=True, capture_output=True, text=True).stdout
        chk.violation(f'spec:{name}:{inv}', f'TLC: invariant {inv} of {module} ({name}) violated: {cex}', {'tlc_out': res['out']})
    chk.extra.setdefault('spec_runs', {})[name] = {'tlc_states': res['distinct'], 'tlc_wall_s': round(res['wall'], 1)}
    return res


def check_C08(chk):
    q = chk.tier == 'quick'
    chk.rule = ('atoms = every number representation and boundary (machine/big integers of equal value, floats 0.0 -0.0 1.0 0.5 1.5 -1.0, decimal '
                'literals 1.0 1e0 0.0 -0.0 1.50 100e-2, +-Infinity), strings (text, bytes, invalid UTF-8, multi-byte), arrays, objects incl. equal '
                'objects with different insertion order and non-string keys. TLC checks on the specification, for ALL pairs and triples of atoms: '
                'exactly one of < == >, antisymmetry, transitivity, unique stable sort, and coherence of an implementation-shaped hash model with '
                'equality. For all pairs x 15 operations ([<,<=,==,!=,>=,>], sort, unique, group_by, min/max, has/.[k] on a 2-entry object, object ==, +, *, '
                '.[k] = v, del, index/indices, array -, contains/inside, bsearch) and all triples x 4 sorting operations, plus 40-element arrays of '
                'equal-but-distinguishable values, the expected result is replayed on the real code. non-trivial: all; distinct = (operation, values).')
    run_spec_only(chk, 'axioms-pairs', 'MC_Order', order_cfg(False, ['Order', 'HashCoherent']))
    run_spec_only(chk, 'axioms-triples', 'MC_Order', order_cfg(True, ['Trans', 'SortStable']))
    run_suite(chk, 'pairs', 'MC_Vals', vals_cfg('order-pairs', 2, ('WellFormed', 'NoUnsup')))
    run_suite(chk, 'triples', 'MC_Vals', vals_cfg('order-triples', 2 if q else 3, ('WellFormed', 'NoUnsup')))
    run_suite(chk, 'long', 'MC_Vals', vals_cfg('order-long', 2, ('WellFormed', 'NoUnsup')))
    chk.extra['exhaustive'] = True
    chk.assumptions += ['NaN is excluded (as in the property); integers beyond 2^53 against floats are excluded (as in the property); big integers here are '
                        'big-integer REPRESENTATIONS of small values, true big magnitudes are in C09',
                        'floats are the exactly representable ones (small dyadic rationals)']


def check_C09(chk):
    q = chk.tier == 'quick'
    chk.rule = ('arith-int: every ordered pair of 25 integer literals straddling the representation boundaries (0, +-1..7, +-2^32, +-(sqrt(2^63)+), +-2^62, '
                '+-(2^63-1), +-2^63, +-(2^63+1), +-2^64, +-2^70) x + - * % == < / and negation; expected digits come from BigNat (TLA+ school arithmetic). '
                'arith-kinds: every ordered pair of 20 values of all kinds x + - * / % (null neutral, concatenation, right-biased union, recursive merge, '
                'string repetition, array difference, string split, errors). int-consumers: each integer -3..4, 65 and +-2^70 as machine integer AND as '
                'big integer x 16 integer-consuming operations (index, slices of arrays/text/bytes, limit, skip, range, nth, repetition, index update, has, '
                'implode, comparison, object key, arithmetic). Every state is replayed on the real code.')
    run_suite(chk, 'arith-int', 'MC_Vals', vals_cfg('arith-int', 2, ('WellFormed', 'NoUnsup')))
    run_suite(chk, 'arith-kinds', 'MC_Vals', vals_cfg('arith-kinds', 2, ('WellFormed', 'NoUnsup')))
    run_suite(chk, 'int-consumers', 'MC_Vals', vals_cfg('int-consumers', 2, ('WellFormed', 'NoUnsup')))
    chk.extra['exhaustive'] = True
    chk.assumptions += ['the IEEE-754 value of float results is specified only where it is a small dyadic rational, a signed zero, NaN or an infinity; '
                        'other float results (e.g. 2^70 / 3) are not compared']


def check_C15(chk):
    q = chk.tier == 'quick'
    chk.rule = ('TLC enumerates syntax trees: every ordered pair of the 25 binary operators (24 + `as $x |`) in both groupings, every triple '
                '(one representative per precedence level/associativity in quick, all 25^3 in thorough) in all 5 groupings, and every prefix/postfix/'
                'binder/keyword construct (-, try/catch, ?, path suffixes, label, def, if, reduce, [..], call argument) as left and right operand of every '
                'operator and around every operator; JaqParse renders each tree to tokens from the documented precedence/associativity table with '
                'minimal, redundant and full parentheses (invariants Balanced, MinIsMin); the harness joins the tokens with 6 trivia variants (spaces, '
                'newlines, comments, comments with odd/even backslash continuation, CRLF) and the real parser must return exactly the tree. '
                'Shorthands: each documented shorthand on 6 inputs, real run validated by TLC against the semantics of its expansion. '
                'Ill-formed texts (hand list) must be rejected at load/compile time.')
    def pcfg(shape):
        return f'SPECIFICATION Spec\nCONSTANT Shape = "{shape}"\nINVARIANT Balanced\nINVARIANT MinIsMin\nCHECK_DEADLOCK FALSE\n'
    run_suite(chk, 'pairs', 'MC_Parse', pcfg('pairs'))
    run_suite(chk, 'specials', 'MC_Parse', pcfg('specials'))
    run_suite(chk, 'triples', 'MC_Parse', pcfg('triples-rep' if q else 'triples-all'))
    import gen
    cases = os.path.join(W, 'cases-C15-sugar.ndjson')
    gen.sugar_cases(cases)
    validate_traces(chk, 'sugar', cases, chunks=8)
    # rejects
    vec = os.path.join(W, 'vec-C15-reject.ndjson')
    with open(vec, 'w') as f:
        for i, t in enumerate(gen.REJECTS):
            f.write(json.dumps({'id': f'reject-{i}', 'mode': 'reject', 'text': t.replace('\\\\', '\\')}) + '\n')
    r = vlib.replay(vec, os.path.join(W, 'res-C15-reject.ndjson'))
    chk.evaluations += len(gen.REJECTS)
    for b in r['bad']:
        chk.violation(f"reject:{b.get('text')}", f"accepted although ill-formed: {b.get('text')!r}", b)
    chk.extra['rejects'] = {'texts': len(gen.REJECTS), 'accepted': len(r['bad'])}
    chk.assumptions += ['the list of ill-formed texts is hand-written (the operational grammar is not yet a TLA+ recogniser); lexing of string escapes and number '
                        'spellings is covered by C07']


def check_C18(chk):
    import inplace, concurrent.futures as cf, threading
    q = chk.tier == 'quick'
    chk.level = 'model_checking'
    chk.rule = ('design: TLC explores JaqInPlace exhaustively (1..3 files x every success/failure pattern x a Kill and a Fail action enabled at every '
                'step) with invariants Atomic, OnlyAfterSuccess, InOrder, Terminated, ModeWindow, Progress. binding: the real binary is run under strace on '
                'scenarios (1-3 files, larger/smaller output, read-only and other mode bits, relative/absolute/sub-directory paths, filter error after k '
                'outputs, parse error mid-file, halt) x faults: none, SIGKILL before the n-th call of every file-system call type (all n), error return of the '
                'n-th open/write/stat/rename/chmod; the call log is translated to events and validated by TLC (Trace_InPlace) action by action, invariants '
                'checked at each step, and the file system found afterwards (bytes classified orig/new/other, mode, left-over temp files) must equal the '
                'specified state. non-trivial = traces with a fault or a failing file.')
    vlib.build_jaq()
    for nf in (1, 2, 3):
        cfg = f'SPECIFICATION Spec\nCONSTANTS\n  NFmc = {nf}\n  MaxW = 2\n' + ''.join(f'INVARIANT {i}\n' for i in
              ['TypeOK', 'Atomic', 'OnlyAfterSuccess', 'InOrder', 'Terminated', 'ModeWindow', 'Progress']) + 'CHECK_DEADLOCK FALSE\n'
        run_spec_only(chk, f'design-{nf}', 'JaqInPlace', cfg, workers=4)
    # liveness: under weak fairness of the process's own steps every run ends (exit or kill)
    run_spec_only(chk, 'liveness', 'JaqInPlace', 'SPECIFICATION FairSpec\nCONSTANTS\n  NFmc = 2\n  MaxW = 2\nPROPERTY Ends\nCHECK_DEADLOCK FALSE\n', workers=4)
    scs = inplace.scenarios(chk.tier)
    jobs = []
    capk = 14 if q else 200
    for sc in scs:
        jobs.append((sc, None))
    # first pass to learn the call counts
    wd = os.path.join(W, 'inplace')
    os.makedirs(wd, exist_ok=True)
    def one(job):
        sc, inj = job
        d = os.path.join(wd, f'w{threading.get_ident()}')
        os.makedirs(d, exist_ok=True)
        return (sc, inj, inplace.record(vlib.JAQ, sc, d, inj))
    with cf.ThreadPoolExecutor(max_workers=10) as ex:
        base = list(ex.map(one, jobs))
    jobs = []
    for sc, _, res in base:
        if res is None:
            raise ToolError(f'scenario {sc.name} timed out')
        counts = res[1]
        for call, cnt in counts.items():
            if call in ('openat', 'write', 'statx', 'renameat', 'chmod', 'unlink', 'unlinkat', 'newfstatat'):
                ns = list(range(1, cnt + 1))
                if len(ns) > capk:
                    step = len(ns) / capk
                    ns = sorted(set([ns[int(i * step)] for i in range(capk)] + ns[-3:] + ns[:3]))
                for n in ns:
                    jobs.append((sc, f'{call}:signal=SIGKILL:when={n}'))
        for call, err in (('write', 'ENOSPC'), ('statx', 'EIO'), ('renameat', 'EXDEV'), ('chmod', 'EPERM'), ('openat', 'EMFILE')):
            cnt = counts.get(call, 0)
            ns = list(range(1, cnt + 1))
            if call == 'write' and len(ns) > 6:
                ns = ns[:3] + [ns[len(ns) // 2]] + ns[-2:]
            if call == 'openat':
                ns = ns[-4:]          # the opens of input / temporary files come last
            for n in ns:
                jobs.append((sc, f'{call}:error={err}:when={n}'))
    with cf.ThreadPoolExecutor(max_workers=10) as ex:
        faulty = list(ex.map(one, jobs))
    allruns = base + faulty
    trace = os.path.join(W, 'trace-C18.ndjson')
    starts = []
    n = 0
    with open(trace, 'w') as f:
        for sc, inj, res in allruns:
            if res is None:
                continue
            evs = res[0]
            # merge consecutive writes
            merged = []
            for e in evs:
                if e['ev'] == 'Write' and merged and merged[-1]['ev'] == 'Write':
                    merged[-1]['n'] += 1
                else:
                    merged.append(dict(e, n=1) if e['ev'] == 'Write' else e)
            starts.append((n + 1, sc.name, inj, merged))
            for e in merged:
                f.write(json.dumps(e) + '\n')
                n += 1
    res = vlib.run_tlc('Trace_InPlace', 'Trace_InPlace.cfg', 'C18-trace', workers=1, timeout=1800, env_extra={'TRACE': trace}, heap='4g')
    chk.add_tlc(res)
    out = open(res['out'], errors='replace').read()
    if '"RESULT"' not in out and not res['invariant_violated']:
        raise ToolError(f'trace validation did not reach the end of the trace: {res["out"]}')
    def scenario_of(line):
        best = None
        for st in starts:
            if st[0] <= line:
                best = st
        return best
    rej = [int(m.group(1)) for m in re.finditer(r'<<"REJECTED", (\d+),', out)]
    for inv in res['invariant_violated']:
        chk.violation(f'trace-invariant:{inv}', f'invariant {inv} of JaqInPlace violated by a real run (see {res["out"]})', {'tlc_out': res['out']})
    for line in rej:
        st = scenario_of(line)
        ev = None
        k = line - st[0]
        if 0 <= k < len(st[3]):
            ev = st[3][k]
        chk.violation(f'inplace:{st[1]}:{st[2]}:{json.dumps(ev)}', f'--in-place scenario {st[1]} (fault: {st[2] or "none"}): event {json.dumps(ev)} is not allowed by JaqInPlace at this point; events: {json.dumps(st[3])[:700]}',
                      {'scenario': st[1], 'inject': st[2], 'events': st[3]})
    chk.traces = len(starts) - len(set(scenario_of(l)[0] for l in rej))
    chk.evaluations = len(starts)
    chk.nontrivial = set(i for i, st in enumerate(starts) if st[2] or 'fail' in st[1] or 'err' in st[1])
    for st in starts[:2] + [s for s in starts if s[2] and 'SIGKILL' in s[2]][5:7] + [s for s in starts if s[2] and 'error' in s[2]][:2]:
        chk.sample({'scenario': st[1], 'fault': st[2], 'events': st[3]})
    chk.extra['scenarios'] = len(scs)
    chk.extra['traced_runs'] = len(starts)
    chk.assumptions += ['strace sees every file-system effect of the process (no io_uring); SIGKILL is delivered on entry of the n-th call of a type, i.e. '
                        'immediately before it takes effect; power-failure durability (fsync ordering) is not modelled']


def check_C17(chk):
    import cli, subprocess
    q = chk.tier == 'quick'
    chk.rule = ('JaqCli: TLC explores the command-line state machine (main loop / input / inputs pulling from ONE cursor per file, writer, exit status) '
                'for every pair of input files with up to MaxItems items each (an item is a value or text that does not parse), every script over '
                '{., input, inputs, [inputs], first(inputs), limit(2; inputs), error, halt(7), false, empty, a stderr side effect} of length <= 3, '
                'with/without --null-input and --exit-status, checking exactly-once in-order consumption, outputs only of consumed well-formed values and '
                'the exit status table; every terminated behaviour is replayed on the real binary (files, and the single-stream cases also via stdin; '
                'stdout bytes, exit status, and stdout/stderr interleaving for the side-effect scripts). MC_CliIO: every subset of -c -r -j -S --tab '
                '--indent n --raw-output0 x values (strings with newline/quote/NUL/multi-byte/control characters, nested and empty containers, unsorted keys) '
                'with the expected bytes from the TLA+ writer JaqCodec, and -R / -Rs / --raw-input0 / --raw-input0 -s x byte streams, by file and by stdin.')
    vlib.build_jaq()
    mi = 2 if q else 3
    cfg = f'SPECIFICATION Spec\nCONSTANTS\n  MaxItems = {mi}\n  NFiles = 2\n' + ''.join(f'INVARIANT {i}\n' for i in
          ['ConsumedIsPrefix', 'OnlyConsumed', 'StatusOk', 'Terminates', 'EmitVec']) + 'CHECK_DEADLOCK FALSE\n'
    res = run_spec_only(chk, 'machine', 'JaqCli', cfg)
    # liveness: under weak fairness every run reaches an exit status
    run_spec_only(chk, 'liveness', 'JaqCli', 'SPECIFICATION FairSpec\nCONSTANTS\n  MaxItems = 1\n  NFiles = 2\nPROPERTY Ends\nCHECK_DEADLOCK FALSE\n', workers=8)
    vecs = [json.loads(l) for l in vlib.tagged_lines(res['out'], 'VEC')]
    extra = [dict(v, stdin=True) for v in vecs if cli.via_stdin(v)]
    wd = os.path.join(W, 'cli')
    results = cli.replay(vlib.JAQ, vecs + extra, wd)
    chk.evaluations += len(results)
    for r in results:
        if not r['ok']:
            chk.violation('cli:' + r['cmd'], f"{r['cmd']}: {r['why']}", r)
    chk.nontrivial = set(i for i, v in enumerate(vecs + extra) if len(v['script']) > 1 or v['status'] != 0)
    for v in (vecs[7], vecs[len(vecs) // 2], vecs[-3]):
        chk.sample({'files': v['files'], 'filter': ', '.join(cli.OPTEXT[o] for o in v['script']), 'null_input': v['nullin'], 'exit_status': v['estatus'],
                    'expected_outputs': v['out'], 'expected_status': v['status']})
    # option suites
    nio = 0
    for suite in ('output', 'input'):
        r2 = run_spec_only(chk, 'io-' + suite, 'MC_CliIO', f'SPECIFICATION Spec\nCONSTANT Suite = "{suite}"\nINVARIANT TypeOK\nCHECK_DEADLOCK FALSE\n')
        os.makedirs(os.path.join(W, 'cliio'), exist_ok=True)
        enc = lambda cps: b''.join((chr(c).encode() if c >= 0 else bytes([-c])) for c in cps)
        for l in vlib.tagged_lines(r2['out'], 'VEC'):
            v = json.loads(l)
            nio += 1
            data = enc(v['stdin'])
            if v['viafile']:
                fp = os.path.join(W, 'cliio', 'in.bin')
                open(fp, 'wb').write(data)
                p = subprocess.run([vlib.JAQ] + v['args'] + [fp], stdout=subprocess.PIPE, stderr=subprocess.PIPE)
            else:
                p = subprocess.run([vlib.JAQ] + v['args'], input=data, stdout=subprocess.PIPE, stderr=subprocess.PIPE)
            exp = enc(v['out'])
            if p.stdout != exp or p.returncode != v['status']:
                key = f"io:{' '.join(v['args'])}:{data!r}:{'file' if v['viafile'] else 'stdin'}"
                chk.violation(key, f"jaq {' '.join(v['args'])} on {data!r} ({'file' if v['viafile'] else 'stdin'}): stdout {p.stdout!r} status {p.returncode}, expected {exp!r} status {v['status']}", v)
    chk.evaluations += nio
    chk.traces = len(results) + nio
    chk.extra['machine_behaviours'] = len(vecs)
    chk.extra['io_cases'] = nio
    chk.assumptions += ['filters are the scripts of the model (the semantics of arbitrary filters is C01); --arg/--argjson/--slurpfile/--rawfile/--args/$ENV/'
                        'input_filename/-f and colour options are not modelled yet; -j without -r on strings is left open (the manual does not say whether they are written raw)']


def check_C12(chk):
    q = chk.tier == 'quick'
    chk.rule = ('coll: 25 inputs (arrays with duplicates, ties, equal numbers in different representations, mixed types, nested arrays, arrays of objects '
                'with equal keys in different order, strings; objects empty, with non-string keys false/null/1, nested; numbers) x 90 operations (sort, '
                'sort_by/group_by/unique_by/min_by/max_by/map/map_values x 9 key filters with 0,1,2 outputs, unique, min, max, keys, to_entries|from_entries, '
                'with_entries(.), flatten/0,1, transpose, combinations, add, any, all, walk, del, delpaths, paths(p), pick, join, split, has, in, select, type and is*/'
                'selection filters, abs, floor/round/ceil, explode, ascii case, the equations keys == keys_unsorted|sort and sort_by(f) == sort_by([f])); coll2: the same '
                'inputs x 16 needles x contains/inside/indices/index/rindex/has/in/startswith/endswith/ltrimstr/rtrimstr/bsearch/split/join. Expected results '
                'come from the constructive definitions in JaqSem/JaqLib (stable insertion sort, maximal runs, first of run, extremal elements as a set of '
                'admissible answers); every state is replayed on the real code.')
    run_suite(chk, 'coll', 'MC_Vals', vals_cfg('coll', 2, ('WellFormed',)))
    run_suite(chk, 'coll2', 'MC_Vals', vals_cfg('coll2', 2, ('WellFormed',)))
    run_suite(chk, 'order-long', 'MC_Vals', vals_cfg('order-long', 2, ('WellFormed', 'NoUnsup')))
    chk.extra['exhaustive'] = True
    chk.assumptions += ['regular-expression filters (splits, test, sub, ...) are outside the specification (third-party engine)',
                        'tonumber/toboolean and float rounding beyond exactly representable values are not covered']


def codec_cfg(suite, size):
    return f'SPECIFICATION Spec\nCONSTANTS\n  Suite = "{suite}"\n  Size = {size}\nINVARIANT TypeOK\nCHECK_DEADLOCK FALSE\n'


def _enc(cps):
    return b''.join((chr(c).encode() if c >= 0 else bytes([-c])) for c in cps)


def rfc_texts(seed, n):
    """independent generator of RFC 8259 texts (escapes, surrogate pairs, exponents, whitespace, duplicate keys)"""
    rng = random.Random(seed)
    ws = lambda: rng.choice(['', ' ', '\n', '\t', ' \r\n '])
    def string():
        parts = []
        for _ in range(rng.randint(0, 4)):
            parts.append(rng.choice(['a', 'Z', ' ', '\\n', '\\t', '\\"', '\\\\', '\\/', '\\b', '\\f', '\\r', '\\u0041', '\\u00e4', '\\u20AC', '\\ud83d\\ude42',
                                     '\\u0000', '\\u001f', '\u00e4', '\u20ac', '/', '\\u007F']))
        return '"' + ''.join(parts) + '"'
    def number():
        return rng.choice(['0', '-0', '1', '-12', '123456789012345678901234567890', '-9223372036854775809', '9223372036854775807', '1.5', '-0.0', '1e2', '1E+2', '1e-2',
                           '0.10', '1.000', '12.5e10', '1e1000', '2.5E-3'])
    def value(d):
        r = rng.random()
        if d <= 0 or r < 0.4:
            return rng.choice([string(), number(), 'true', 'false', 'null'])
        if r < 0.7:
            return '[' + ws() + (',' + ws()).join(value(d - 1) for _ in range(rng.randint(0, 3))) + ws() + ']'
        keys = [rng.choice(['"a"', '"b"', '"a"', string()]) for _ in range(rng.randint(0, 3))]
        return '{' + ws() + (',' + ws()).join(k + ws() + ':' + ws() + value(d - 1) for k in keys) + ws() + '}'
    return [ws() + value(3) + ws() for _ in range(n)]


def check_C07(chk):
    import subprocess, re as _re
    q = chk.tier == 'quick'
    chk.rule = ('json-str: every text string of length <= Size over 31 structurally significant characters (quote, backslash, /, NUL, \\b \\f \\t \\n \\r, 0x1f, 0x7f, '
                '2/3/4-byte characters, invalid bytes 0x80 0xff, ...): tojson text (expected from the TLA+ writer JaqCodec), tojson|fromjson = identity, as object key, '
                'as byte string; json-val: every number representation (big integers, floats, -0.0, NaN, +-Infinity, decimal literals 1.10 1e1000 0.0 1E-2), byte strings, '
                'nested/empty containers, arbitrary keys in any order: text, round trip (float literal read back as the same decimal literal), tostring. CLI: the same '
                'values through `jaq PP .` for every indentation / -c / -S / --tab option and back through `jaq -c .`. RFC 8259: seeded texts from an independent '
                'generator, jaq output re-read by Python`s json must equal Python`s reading of the original; integer literals exact, non-integer literals printed character for character.')
    run_suite(chk, 'json-str', 'MC_Codec', codec_cfg('json-str', 2 if q else 3))
    run_suite(chk, 'json-val', 'MC_Codec', codec_cfg('json-val', 1))
    vlib.build_jaq()
    # CLI: write with every layout, read back compactly
    r2 = run_spec_only(chk, 'cli-json', 'MC_CliIO', 'SPECIFICATION Spec\nCONSTANT Suite = "json"\nINVARIANT TypeOK\nCHECK_DEADLOCK FALSE\n')
    n = 0
    for l in vlib.tagged_lines(r2['out'], 'VEC'):
        v = json.loads(l)
        n += 1
        p = subprocess.run([vlib.JAQ] + v['args'], input=_enc(v['stdin']), stdout=subprocess.PIPE, stderr=subprocess.PIPE)
        if p.stdout != _enc(v['out']) or p.returncode != 0:
            chk.violation(f"cli-write:{' '.join(v['args'])}:{_enc(v['stdin'])!r}", f"jaq {' '.join(v['args'])} on {_enc(v['stdin'])!r}: {p.stdout!r}, expected {_enc(v['out'])!r}", v)
            continue
        p2 = subprocess.run([vlib.JAQ, '-c', '.'], input=p.stdout, stdout=subprocess.PIPE, stderr=subprocess.PIPE)
        if p2.stdout != _enc(v['back']) or p2.returncode != 0:
            chk.violation(f"cli-read:{' '.join(v['args'])}:{_enc(v['stdin'])!r}", f"jaq {' '.join(v['args'])} | jaq -c . on {_enc(v['stdin'])!r}: {p2.stdout!r}, expected {_enc(v['back'])!r}", v)
    chk.evaluations += n
    # RFC 8259 texts against an independent reader
    texts = rfc_texts(chk.seed, 400 if q else 4000)
    bad_float = _re.compile(r'-?\d+\.\d+([eE][+-]?\d+)?|-?\d+[eE][+-]?\d+')
    for t in texts:
        p = subprocess.run([vlib.JAQ, '-c', '.'], input=t.encode(), stdout=subprocess.PIPE, stderr=subprocess.PIPE)
        chk.evaluations += 1
        if p.returncode != 0:
            chk.violation(f'rfc-reject:{t!r}', f'an RFC 8259 text was rejected: {t!r}: {p.stderr.decode(errors="replace")[:200]}', {'text': t})
            continue
        out = p.stdout.decode(errors='replace')
        try:
            want = json.loads(t, parse_float=lambda s: ('lit', s), parse_int=int)
            got = json.loads(out, parse_float=lambda s: ('lit', s), parse_int=int)
        except Exception as e:
            chk.violation(f'rfc-output:{t!r}', f'jaq output for {t!r} is not JSON: {out!r} ({e})', {'text': t})
            continue
        if want != got or list_keys(want) != list_keys(got):
            chk.violation(f'rfc-value:{t!r}', f'{t!r} read as {out!r}; an independent reader gives {want!r}', {'text': t})
    chk.traces += len(texts)
    chk.extra['rfc_texts'] = len(texts)
    chk.extra['cli_cases'] = n
    chk.assumptions += ['shortest float printing (ryu) is outside the specification: floats are the exactly representable small dyadic ones whose decimal expansion is their shortest form',
                        'the RFC 8259 part uses Python`s json module as independent reader (exploration, not decided by TLC)']


def list_keys(v):
    if isinstance(v, dict):
        return [(k, list_keys(x)) for k, x in v.items()]
    if isinstance(v, list):
        return [list_keys(x) for x in v]
    return None


def check_C13(chk):
    import subprocess, csv, io, html, base64, urllib.parse
    q = chk.tier == 'quick'
    chk.rule = ('every text string of length <= Size over 31 metacharacters (quotes, backslash, comma, tab, newline, CR, NUL, & < > % + space = ; $ `, letters, ~ /, 2/3/4-byte '
                'characters, invalid bytes, control characters) x explode|implode, tobytes|tostring, @base64(d), @uri(d), @html(d), @sh, @json, @text, ASCII case mapping, length, '
                'utf8bytelength, reassembly from slices; the expected encodings come from TLA+ encoders (JaqCodec), the expected result of encode-then-decode is the original. '
                'Format strings @f "x\\(s)y" for six formatters, rows of scalars for @csv/@tsv/@sh, rejected non-scalar rows. regex: for 7 regexes x strings, match offsets/lengths '
                'index characters and splits interleaved with matches reassemble the string (as in-language invariants). codec-dec: strings built from tokens that look like encoder '
                'output (&amp; &lt; %25 %41 %zz = / + ...) x @html|@htmld, @htmld (one pass: TLA+ HtmlDec), @uri|@urid, @base64|@base64d, @urid on arbitrary text (TLA+ PercentDec; a stray % is '
                'rejected or kept verbatim, never cut), @base64d on arbitrary text (TLA+ Base64Dec: canonical -> decoded, not Base64 -> error, non-canonical padding/trailing bits -> rejected or '
                'fully decoded, never cut). split-join: split($x)|join($x) = identity. Real consumers: /bin/sh, Python csv/json/html/urllib/base64 '
                'must recover exactly the original data from jaq`s output.')
    run_suite(chk, 'codec', 'MC_Codec', codec_cfg('codec', 2 if q else 2))
    run_suite(chk, 'codec-fmt', 'MC_Codec', codec_cfg('codec-fmt', 1 if q else 2))
    run_suite(chk, 'regex', 'MC_Codec', codec_cfg('regex', 1 if q else 2))
    run_suite(chk, 'codec-dec', 'MC_Codec', codec_cfg('codec-dec', 2))
    run_suite(chk, 'split-join', 'MC_Codec', codec_cfg('split-join', 1 if q else 2))
    vlib.build_jaq()
    # real consumers of the escaping formatters
    rng = random.Random(chk.seed)
    alphabet = ["'", '"', '\\', ',', '\t', '\n', '\r', '&', '<', '>', '%', '+', ' ', '=', ';', '$', '`', 'a', 'A', '~', '/', '\u00e4', '\u20ac', '\U0001f642', '\x1f', '\x7f', '*', '?', '!', '#', '(', '|']
    strs = [''] + alphabet + [a + b for a in alphabet for b in alphabet]
    if not q:
        strs += [''.join(rng.choice(alphabet) for _ in range(rng.randint(3, 8))) for _ in range(3000)]
    rows = [rng.sample(strs, 3) for _ in range(150 if q else 1500)]
    def jaq(filt, inp, raw=True):
        p = subprocess.run([vlib.JAQ] + (['-r'] if raw else []) + [filt], input=json.dumps(inp).encode(), stdout=subprocess.PIPE, stderr=subprocess.PIPE)
        return p.returncode, p.stdout
    nc = 0
    # @sh: one shell invocation per batch: printf each word NUL-terminated
    for k in range(0, len(strs), 200):
        batch = strs[k:k + 200]
        rc, out = jaq('.[] | @sh "printf \'%s\\\\0\' \\(.)"', batch)
        nc += len(batch)
        if rc != 0:
            chk.violation('sh:jaq-failed', f'@sh failed on a batch: {out[:200]!r}', {})
            continue
        sh = subprocess.run(['/bin/sh'], input=out, stdout=subprocess.PIPE, stderr=subprocess.PIPE)
        words = sh.stdout.split(b'\0')[:-1]
        if words != [s.encode() for s in batch]:
            badw = [s for s, w in zip(batch, words + [None] * len(batch)) if w != s.encode()][:3]
            chk.violation(f'sh:{badw!r}', f'/bin/sh evaluating @sh output did not recover the data, e.g. for {badw!r}', {'strings': badw})
    # @sh of arrays: the shell must see exactly the elements
    for row in rows[:60]:
        rc, out = jaq('"printf \'%s\\\\0\' " + @sh', row)
        sh = subprocess.run(['/bin/sh'], input=out, stdout=subprocess.PIPE, stderr=subprocess.PIPE)
        nc += 1
        if sh.stdout.split(b'\0')[:-1] != [s.encode() for s in row]:
            chk.violation(f'sh-row:{row!r}', f'/bin/sh evaluating @sh of {row!r} saw {sh.stdout!r}', {'row': row})
    # @csv rows read by Python's csv module
    rc, out = jaq('.[] | @csv', rows)
    got = list(csv.reader(io.StringIO(out.decode(errors='replace'), newline='')))
    nc += len(rows)
    if rc != 0 or got != rows:
        badr = [r for r, g in zip(rows, got + [None] * len(rows)) if r != g][:2]
        chk.violation(f'csv:{badr!r}', f'Python csv reading @csv output did not recover the rows, e.g. {badr!r}', {'rows': badr})
    # @json by json, @html by html.unescape, @uri by unquote, @base64 by b64decode
    for name, filt, dec in (('json', '@json', lambda b: json.loads(b)), ('html', '@html', lambda b: html.unescape(b.decode())),
                            ('uri', '@uri', lambda b: urllib.parse.unquote(b.decode())), ('base64', '@base64', lambda b: base64.b64decode(b, validate=True).decode())):
        rc, out = jaq(f'.[] | {filt}', strs)
        lines = out.split(b'\n')[:-1] if name != 'json' else None
        nc += len(strs)
        try:
            if name == 'json':
                vals = [json.loads(l) for l in out.decode().split('\n')[:-1]]
                # raw output of @json is the JSON text; texts with raw newlines are impossible since @json escapes them
                rec = vals
            else:
                # strings containing a newline would break line splitting for html: encode one by one for those
                rec = []
                idx = 0
                for s_ in strs:
                    if '\n' in s_ and name == 'html':
                        rc1, o1 = jaq(filt, s_)
                        rec.append(dec(o1[:-1]))
                    else:
                        rec.append(None)
                whole = [x for x in strs if not ('\n' in x and name == 'html')]
                rc2, o2 = jaq(f'.[] | {filt}', whole)
                it = iter(o2.split(b'\n')[:-1])
                rec = [r if r is not None else dec(next(it)) for r in rec]
            if rec != strs:
                badv = [s_ for s_, r_ in zip(strs, rec) if s_ != r_][:3]
                chk.violation(f'{name}:{badv!r}', f'the {name} consumer did not recover the original from {filt} output, e.g. for {badv!r}', {'strings': badv})
        except Exception as e:
            chk.violation(f'{name}:exception', f'the {name} consumer failed on {filt} output: {e}', {})
    chk.evaluations += nc
    chk.traces += nc
    chk.extra['consumer_cases'] = nc
    chk.assumptions += ['the regular expression language itself is not modelled (third-party engine): only the position arithmetic around matches',
                        'TSV has no independent reader here; its encoding is decided by the TLA+ encoder alone']


def time_cfg(suite, size):
    return f'SPECIFICATION Spec\nCONSTANTS\n  Suite = "{suite}"\n  Size = {size}\nINVARIANT TypeOK\nCHECK_DEADLOCK FALSE\n'


def check_C20(chk):
    import subprocess, datetime
    q = chk.tier == 'quick'
    chk.rule = ('calendar: TLC walks the successor relation on civil dates (month lengths + 4/100/400 rule) through every day of the years 1770..2170 (quick; one full 400-year cycle) / '
                '-9999..9999 (thorough) and checks in every state that the closed forms DaysFromCivil / CivilFromDays agree, that years meet, that yearday / weekday laws hold and that '
                'splitting and joining Unix times are inverse. epoch: for every Unix time of the edge set (20/44 years x 6-7 dates x 2/5 times of day, +-2^31, +-2^53, +-2^63, 2^64/10^6, '
                'range limits, with neighbours) gmtime = the specified array, gmtime|mktime, todate|fromdate, strftime(F)|strptime(F)|mktime for three complete formats return the '
                'original, todate = the specified text; beyond years -9999..9999 everything fails; in years +-9999 right or rejected. mktime: arrays with every field at edge values '
                '(one or two at a time), malformed arrays, non-numeric / non-finite times. iso: texts with nine offsets, malformed texts rejected. frac: fractional times with up to six '
                'digits before and after 1970: to the microsecond. traces: seeded random Unix times run through the real gmtime/todate/mktime, each run accepted or rejected by TLC '
                '(Trace_Time) against JaqTime, and compared with Python`s datetime where it applies.')
    yrs = (200, 200) if q else (8029, 11969)
    res = vlib.run_tlc('MC_Calendar', f'SPECIFICATION Spec\nCONSTANTS\n  YearsFwd = {yrs[0]}\n  YearsBwd = {yrs[1]}\n'
                       'INVARIANTS Valid ClosedFormAgrees YearsMeet PrevInverse YearDayLaw WeekDayLaw SplitJoin\nCHECK_DEADLOCK FALSE\n',
                       'C20-calendar', workers=12, timeout=7200)
    chk.add_tlc(res)
    for inv in res['invariant_violated']:
        chk.violation(f'spec:calendar:{inv}', f'TLC: invariant {inv} of MC_Calendar violated (see {res["out"]})', {'tlc_out': res['out']})
    if not res['completed']:
        raise ToolError('calendar walk did not complete')
    chk.extra['calendar'] = {'days': res['distinct'], 'years': f'{1970 - yrs[1]}..{1970 + yrs[0]}'}
    size = 1 if q else 2
    for suite in ('epoch', 'mktime', 'iso', 'frac'):
        run_suite(chk, suite, 'MC_Time', time_cfg(suite, size))
    # implementation -> specification: random Unix times
    vlib.build_jaq()
    rng = random.Random(chk.seed)
    n = 1500 if q else 20000
    lo, hi = -377673580800, 253370764799      # years -9998..9998
    eps = [rng.randint(lo, hi) for _ in range(n // 2)] + [rng.randint(-2**32, 2**33) for _ in range(n // 4)] + \
          [d * 86400 + rng.choice([-1, 0, 1]) for d in (rng.randint(lo // 86400 + 1, hi // 86400 - 1) for _ in range(n // 4))]
    p = subprocess.run([vlib.JAQ, '-c', '[gmtime, (todate | explode), (gmtime | mktime)]'], input='\n'.join(map(str, eps)).encode(), stdout=subprocess.PIPE, stderr=subprocess.PIPE)
    outs = p.stdout.decode().split('\n')[:-1]
    if p.returncode != 0 or len(outs) != len(eps):
        bad = eps[len(outs)] if len(outs) < len(eps) else None
        chk.violation(f'random:{bad}', f'a time of a year in -9998..9998 was rejected: {bad}: {p.stderr.decode()[:200]}', {'epoch': bad})
        eps = eps[:len(outs)]
    tr = os.path.join(W, 'trace-C20.ndjson')
    with open(tr, 'w') as f:
        for e, o in zip(eps, outs):
            gm, iso, mk = json.loads(o)
            f.write(json.dumps({'neg': e < 0, 'd': [int(c) for c in str(abs(e))] if e else [], 'gm': gm, 'iso': iso, 'mkneg': mk < 0, 'mk': [int(c) for c in str(abs(mk))] if mk else []}) + '\n')
            # second opinion
            if 1 <= gm[0] <= 9999:
                dt = datetime.datetime(1970, 1, 1) + datetime.timedelta(seconds=e)
                want = [dt.year, dt.month - 1, dt.day, dt.hour, dt.minute, dt.second, (dt.weekday() + 1) % 7, dt.timetuple().tm_yday - 1]
                if want != gm:
                    chk.violation(f'python:{e}', f'{e} | gmtime = {gm}; Python datetime says {want}', {'epoch': e})
    cfgt = 'SPECIFICATION Spec\nINVARIANT Report\nCHECK_DEADLOCK FALSE\n'
    res = vlib.run_tlc('Trace_Time', cfgt, 'C20-trace', workers=1, timeout=3000, env_extra={'TRACE': tr}, xss='1g', heap='3g')
    chk.add_tlc(res)
    result = list(vlib.tuple_lines(res['out'], 'RESULT'))
    if not result:
        raise ToolError(f'trace spec did not consume the trace: {res["out"]}')
    for l in vlib.tagged_lines(res['out'], 'REJECTED'):
        rec = json.loads(l)
        e = int(''.join(map(str, rec['rec']['d'])) or '0') * (-1 if rec['rec']['neg'] else 1)
        chk.violation(f'trace:{e}', f'real run rejected by JaqTime: {e} | gmtime, todate, (gmtime|mktime) = {json.dumps(rec["rec"])[:300]}', rec)
    chk.traces += len(eps)
    chk.evaluations += len(eps)
    chk.extra['random_epochs'] = len(eps)
    chk.assumptions += ['local time zones (localtime, strflocaltime, %Z/%Q) are outside the specification',
                        'strftime/strptime directives beyond the three complete formats and %F %T%.f are not modelled',
                        'fractional times: decimal literals with at most six digits and |t| < 2^51 microseconds (exact to the microsecond in a double)',
                        'leap second spellings (:60), offsets beyond +-23:59 and lenient ISO forms (lower case, space, basic format) are left open']


def check_C16(chk):
    import modules, shutil, concurrent.futures as cf
    q = chk.tier == 'quick'
    chk.rule = ('TLC runs the loader state machine of JaqModules (Resolve -> ReadErr / Reuse / Cycle / Enter, Exit; invariants: no module twice, open is a stack, each file entered at most once, '
                'identifiers in completion order, a cycle is an error, termination) on every case of five suites and computes, for every probe (a main filter), the outcome of the single '
                'program obtained by inlining (definitions renamed apart, every call / variable resolved by the manual`s rules) under JaqSem. graph: all DAGs over main + modules a, b (quick) '
                '/ a, b, c (thorough), every edge absent / include / import, both directive orders, name clashes between modules, with main and with the standard library, shadowing inside a '
                'module, data imports of the same name in different modules, two data imports in one module, global variables, calls under binders with variable and filter arguments; 27-32 '
                'probes per graph. cyclic: the same with back edges and self loops. leak: a module using a definition / variable of its loader or of the call site. search: one module in '
                'every subset of <= 2 (quick) / all subsets (thorough) of nine directories x four `search` settings x three -L settings x inline / -f main. ext: extensions, sub-directories, '
                '`..`, absolute paths, default library paths, data files, a nested module with relative search paths. Every case is laid out as real directories and files and run through '
                'the real jaq (built with the loader hook): output, exit status and the loader`s steps must be the specified ones.')
    jaq = vlib.build_jaq_hooked()
    invs = 'NoDuplicates OpenIsStack EnteredOnce CompletionOrder CycleIsError Terminates'
    suites = [('leak', 1), ('ext', 1), ('graph', 1 if q else 2), ('cyclic', 1), ('search', 1 if q else 2)]
    # liveness: loading ends for every graph, cyclic ones included
    run_spec_only(chk, 'liveness', 'MC_Modules', 'SPECIFICATION FairSpec\nCONSTANTS\n  Suite = "cyclic"\n  Size = 1\nPROPERTY LoadEnds\nCHECK_DEADLOCK FALSE\n', workers=8)
    base = os.path.join(W, 'modtree')
    shutil.rmtree(base, ignore_errors=True)
    total = {'cases': 0, 'probes': 0, 'outcomes': {}}
    for suite, size in suites:
        res = vlib.run_tlc('MC_Modules', f'SPECIFICATION Spec\nCONSTANTS\n  Suite = "{suite}"\n  Size = {size}\nINVARIANTS {invs}\nCHECK_DEADLOCK FALSE\n',
                           f'C16-{suite}', workers=12, timeout=7200)
        chk.add_tlc(res)
        for inv in res['invariant_violated']:
            chk.violation(f'spec:{suite}:{inv}', f'TLC: invariant {inv} of JaqModules violated in suite {suite} (see {res["out"]})', {'tlc_out': res['out']})
        if not res['completed']:
            raise ToolError(f'TLC did not complete on MC_Modules/{suite}: {res["out"]}')
        cases = [json.loads(l) for l in vlib.tagged_lines(res['out'], 'VEC')]
        if not cases:
            raise ToolError(f'no cases from MC_Modules/{suite}')

        def one(ic):
            i, c = ic
            root = os.path.join(base, f'{suite}-{i}')
            try:
                return modules.check_case(c, root, jaq)
            finally:
                shutil.rmtree(root, ignore_errors=True)
        with cf.ThreadPoolExecutor(max_workers=12) as ex:
            for (i, c), bad in zip(enumerate(cases), ex.map(one, enumerate(cases))):
                total['cases'] += 1
                total['probes'] += len(c['probes'])
                chk.evaluations += len(c['probes'])
                chk.traces += 1
                for pr in c['probes']:
                    total['outcomes'][pr['out']['k']] = total['outcomes'].get(pr['out']['k'], 0) + 1
                    chk.nontrivial.add(hash(json.dumps(pr, sort_keys=True)) ^ i)
                if i % 211 == 5:
                    chk.sample({'suite': suite, 'main': c['main'], 'loader_steps': c['ev'], 'probe': c['probes'][0]})
                for b in bad:
                    run = b['run']
                    files = sorted('/'.join(f) for f in c['files'])
                    chk.violation(f"{suite}:{run['text'][:300]}:{[modules.sp_text(x) for x in c['L']]}:{'-f' if c['main'].get('file') else 'inline'}:{files}"[:700],
                                  f"jaq {' '.join(run['args'])[-300:]!r} with files {files}: {b['what'][:400]}",
                                  {'case': c, 'run': run, 'what': b['what']})
        chk.extra.setdefault('suites', {})[suite] = {'cases': len(cases), 'tlc_states': res['distinct']}
    chk.extra['totals'] = total
    chk.assumptions += ['every directory named by a search path exists (the driver creates them), so lexical and physical resolution of `..` coincide; no symbolic links',
                        'module bodies are drawn from a small term language (strings, calls, qualified calls, variables, arrays, `as`); the text printer of the driver is trusted',
                        'the order library paths / `search` paths follows the property (and the code): `search` first; the manual lists them the other way round',
                        'duplicate names among --arg / --argjson and $__prog_args / $ENV are not modelled']


def formats_cfg(suite, size):
    return f'SPECIFICATION Spec\nCONSTANTS\n  Suite = "{suite}"\n  Size = {size}\nINVARIANTS TypeOK SpecRoundTrip\nCHECK_DEADLOCK FALSE\n'


def cbor_decode(b, i=0):
    """independent CBOR reader (RFC 8949) -> (python value, next index); floats as float, big numbers as int"""
    import struct
    ib = b[i]; major, ai = ib >> 5, ib & 31; i += 1
    if ai < 24: n = ai
    elif ai == 24: n = b[i]; i += 1
    elif ai == 25: n = int.from_bytes(b[i:i + 2], 'big'); i += 2
    elif ai == 26: n = int.from_bytes(b[i:i + 4], 'big'); i += 4
    elif ai == 27: n = int.from_bytes(b[i:i + 8], 'big'); i += 8
    else: raise ValueError('indefinite / reserved')
    if major == 0: return n, i
    if major == 1: return -1 - n, i
    if major == 2: return ('bytes', bytes(b[i:i + n])), i + n
    if major == 3: return bytes(b[i:i + n]).decode('utf-8'), i + n
    if major == 4:
        out = []
        for _ in range(n):
            v, i = cbor_decode(b, i); out.append(v)
        return out, i
    if major == 5:
        out = []
        for _ in range(n):
            k, i = cbor_decode(b, i); v, i = cbor_decode(b, i); out.append((k, v))
        return ('map', out), i
    if major == 6:
        v, j = cbor_decode(b, i)
        if n == 2: return int.from_bytes(v[1], 'big'), j
        if n == 3: return -1 - int.from_bytes(v[1], 'big'), j
        raise ValueError('tag')
    if ai == 20: return False, i - 0
    if ai == 21: return True, i
    if ai == 22: return None, i
    if ai == 25: return struct.unpack('>e', b[i - 2:i])[0], i
    if ai == 26: return struct.unpack('>f', b[i - 4:i])[0], i
    if ai == 27: return struct.unpack('>d', b[i - 8:i])[0], i
    raise ValueError('simple')


def py_of(v):
    """interchange value -> python value comparable with the independent readers"""
    t = v['t']
    if t == 'int': return v['n']
    if t == 'big': return int(''.join(map(str, v['d'])) or '0') * (-1 if v['neg'] else 1)
    if t == 'flt': return v['p'] / v['q']
    if t == 'nz': return -0.0
    if t == 'fsp': return {'nan': float('nan'), 'inf': float('inf')}.get(v['k'], float('-inf'))
    if t == 'dec': return float(''.join(chr(c) for c in v['ds']))
    if t == 'str': return ''.join(chr(c) for c in v['c'])
    if t == 'bytes': return ('bytes', bytes(v['y']))
    if t == 'arr': return [py_of(x) for x in v['a']]
    if t == 'obj': return ('map', [(py_of(k), py_of(x)) for k, x in v['o']])
    if t == 'null': return None
    if t == 'bool': return v['b']
    raise ValueError(t)


def same(a, b):
    import math
    if isinstance(a, float) and isinstance(b, float):
        return (math.isnan(a) and math.isnan(b)) or (a == b and math.copysign(1, a) == math.copysign(1, b))
    if isinstance(a, bool) != isinstance(b, bool): return False
    if isinstance(a, (list, tuple)) and isinstance(b, (list, tuple)) and len(a) == len(b) and type(a) == type(b):
        return all(same(x, y) for x, y in zip(a, b))
    if isinstance(a, float) != isinstance(b, float): return False
    return a == b


def check_C14(chk):
    import subprocess, csv, io, tomllib, xml.dom.minidom
    q = chk.tier == 'quick'
    chk.rule = ('per format, TLC enumerates the values of the documented domain and values just outside; each state carries the round trip to run, the expected result and whether the '
                'specified writer/reader pair of JaqFormats round-trips it (invariant SpecRoundTrip). yaml-str: every string of length <= 2 over 40 characters (signs, dot, digits, e, n, a, blank, '
                'tab, : # ~ , [ ] { } quotes, line breaks, indicators, NEL, BOM) (thorough: <= 3 over 20) plus words of <= 2 (3) tokens (+ - . 1 0 e inf nan null true ~ blank : # --- ... a x NaN '
                'INF Null no _ o b), each as scalar, array element, key and value: toyaml|fromyaml = identity. yaml-val: all number kinds, byte strings, non-string keys, nesting. csv: rows of 1-2 '
                '(3) scalars from 27 fields (quotes, commas, line breaks, number-like and boolean-like strings, empty string): tocsv|[fromcsv]. tsv: rows of strings of the domain. toml: 15 keys '
                '(bare, quoted, empty, dotted, unicode) x 16 leaves x five table shapes, values outside the domain rejected. cbor: integers at every head-size boundary up to 2^128, floats, text, '
                'bytes, containers at length boundaries, non-string keys; the encoded head of integers is specified exactly. xml: 400 documents from 20 items: fromxml|toxml|fromxml = fromxml. '
                'Then, on the same values: `--to F` / `--from F` on the command line (also indented YAML) agree with the filters, and independent readers (Python tomllib, csv, '
                'xml.dom.minidom, a CBOR decoder written for this check) read what jaq writes.')
    size = 1 if q else 2
    vecs = {}
    for suite in ('yaml-str', 'yaml-val', 'csv', 'tsv', 'toml', 'cbor', 'xml'):
        sz = size if suite != 'yaml-str' else (2 if q else 3)
        run_suite(chk, suite, 'MC_Formats', formats_cfg(suite, sz), timeout=7200)
        vecs[suite] = [json.loads(l) for l in open(os.path.join(W, f'vec-{chk.pid}-{suite}.ndjson'))]
    vlib.build_jaq()
    rng = random.Random(chk.seed)

    def jaq(args, inp=b''):
        p = subprocess.run([vlib.JAQ] + args, input=inp, stdout=subprocess.PIPE, stderr=subprocess.PIPE)
        return p.returncode, p.stdout, p.stderr.decode(errors='replace')[:300]

    def xjon(v):
        # XJON text of an interchange value via the harness printer is not needed: jaq reads JSON; values with bytes / special floats are given as filters
        rc, out, err = jaq(['-n', '-c', '$v'], b'')
        return out
    ncli = 0
    def val_filter(v):
        """a jq expression that builds the value"""
        t = v['t']
        if t in ('int', 'big', 'flt', 'nz', 'dec'):
            x = py_of(v)
            return ('-0.0' if t == 'nz' else ''.join(chr(c) for c in v['ds']) if t == 'dec' else repr(x))
        if t == 'fsp': return {'nan': 'nan', 'inf': 'infinite'}.get(v['k'], '-infinite')
        if t == 'str': return json.dumps(''.join(chr(c) for c in v['c']), ensure_ascii=False)
        if t == 'bytes': return '([' + ','.join(map(str, v['y'])) + '] | tobytes)'
        if t == 'arr': return '[' + ', '.join(val_filter(x) for x in v['a']) + ']'
        if t == 'obj': return '({} ' + ''.join(f'| .[{val_filter(k)}] = {val_filter(x)} ' for k, x in v['o']) + ')'
        if t == 'null': return 'null'
        return 'true' if v['b'] else 'false'
    # command line vs filters, and independent readers
    def sample(xs, n):
        xs = list(xs)
        return xs if len(xs) <= n else rng.sample(xs, n)
    for fmt, suite, nmax in (('yaml', 'yaml-val', 100), ('yaml', 'yaml-str', 150 if q else 1500), ('toml', 'toml', 150 if q else 900), ('cbor', 'cbor', 200), ('csv', 'csv', 150 if q else 800), ('tsv', 'tsv', 100 if q else 420)):
        for vec in sample([v for v in vecs[suite] if v['expect']['e']['k'] == 'ok' and v['vars'] and v['vars'][0][0] == 's'], nmax):
            v = vec['vars'][0][1]
            if fmt == 'toml' and not (v['t'] == 'obj'):
                continue
            if fmt == 'toml' and 'tojson' in json.dumps(vec['prog']):
                continue
            f = '(' + val_filter(v) + ')'
            if len(f) > 100000:
                continue        # too long for a command line; the filters are checked by the replay above
            rc1, lib, e1 = jaq(['-n', '-j', f + ' | to' + fmt])
            opts = [['--to', fmt]] + ([['--to', fmt, '-c']] if fmt == 'yaml' else [])
            ncli += 1
            for o in opts:
                rc2, cli, e2 = jaq(['-n', f] + o)
                if rc1 != 0 or rc2 != 0:
                    chk.violation(f'cli-{fmt}-fail:{f}', f'`jaq -n {f!r} {" ".join(o)}` (status {rc2}: {e2}) or `| to{fmt}` (status {rc1}: {e1}) failed on a value of the domain', {'filter': f})
                    break
                # read back with --from: the same value (compared as XJON text of both)
                rc3, back, e3 = jaq(['--from', fmt, '-c', '.'], cli)
                rc4, want, e4 = jaq(['-n', '-c', f + ' | to' + fmt + ' | from' + fmt])
                if rc3 != 0 or back != want:
                    chk.violation(f'cli-{fmt}-read:{f}:{o}', f'`jaq -n {f!r} {" ".join(o)} | jaq --from {fmt} -c .` gives {back[:200]!r} (status {rc3} {e3}); the filters give {want[:200]!r}', {'filter': f, 'opts': o})
                if o == ['--to', fmt, '-c'] or (fmt != 'yaml'):
                    body = cli
                    if fmt == 'yaml':
                        body = cli.replace(b'---\n', b'', 1)
                        body = body[:-len(b'...\n')] if body.endswith(b'...\n') else body
                    if body.rstrip(b'\n') != lib.rstrip(b'\n'):
                        chk.violation(f'cli-{fmt}-text:{f}', f'`--to {fmt}` writes {cli[:200]!r}, the filter to{fmt} {lib[:200]!r}', {'filter': f})
            # independent readers of the filter`s output
            try:
                if fmt == 'toml':
                    got = tomllib.loads(lib.decode())
                    def conv(x):
                        return ('map', sorted(((k, conv(y)) for k, y in x.items()), key=lambda kv: kv[0])) if isinstance(x, dict) else [conv(y) for y in x] if isinstance(x, list) else x
                    def srt(x):
                        return ('map', sorted(((k, srt(y)) for k, y in x[1]), key=lambda kv: kv[0])) if isinstance(x, tuple) and x[0] == 'map' else [srt(y) for y in x] if isinstance(x, list) else x
                    if not same(conv(got), srt(py_of(v))):
                        chk.violation(f'toml-reader:{f}', f'Python tomllib reads {lib[:200]!r} as {got!r}, not as the value written', {'filter': f})
                elif fmt == 'cbor':
                    got, end = cbor_decode(lib)
                    if end != len(lib) or not same(got, py_of(v)):
                        chk.violation(f'cbor-reader:{f}', f'an independent CBOR reader reads {lib[:60]!r} as {got!r}, not as the value written', {'filter': f})
                elif fmt == 'csv':
                    rows = list(csv.reader(io.StringIO(lib.decode(), newline='')))
                    want = [['' if x is None else ('true' if x is True else 'false' if x is False else x if isinstance(x, str) else None) for x in py_of(v)]]
                    if len(rows) != 1 or len(rows[0]) != len(want[0]) or any(w is not None and w != g for w, g in zip(want[0], rows[0])):
                        chk.violation(f'csv-reader:{f}', f'Python csv reads {lib[:200]!r} as {rows!r}, not as the row written', {'filter': f})
            except Exception as e:
                chk.violation(f'{fmt}-reader-fail:{f}', f'what to{fmt} writes for {f} is not well-formed for an independent reader: {lib[:200]!r}: {e}', {'filter': f})
    # XML: what toxml writes is well-formed for an independent reader
    for vec in sample(vecs['xml'], 120 if q else 422):
        doc = ''.join(chr(c) for c in vec['vars'][0][1]['c'])
        rc, out, err = jaq(['-n', '-j', json.dumps(doc) + ' | [fromxml | toxml] | add'])
        ncli += 1
        if rc != 0:
            chk.violation(f'xml-fail:{doc}', f'fromxml | toxml failed on {doc!r}: {err}', {'doc': doc})
            continue
        try:
            xml.dom.minidom.parseString(out)
        except Exception as e:
            chk.violation(f'xml-reader:{doc}', f'what toxml writes for {doc!r} is not well-formed: {out[:200]!r}: {e}', {'doc': doc})
        rc2, cli, e2 = jaq(['--from', 'xml', '--to', 'xml', '-j', '.'], doc.encode())
        if rc2 != 0 or cli != out:
            chk.violation(f'cli-xml:{doc}', f'`--from xml --to xml` writes {cli[:200]!r} for {doc!r}, the filters {out[:200]!r}', {'doc': doc})
    chk.evaluations += ncli
    chk.traces += ncli
    chk.extra['cli_and_reader_cases'] = ncli
    chk.assumptions += ['YAML: no independent YAML reader is installed; well-formedness of YAML output is judged by jaq`s own reader only. The plain-scalar rules are those of YAML 1.2.2 (one line, flow context) and the core schema plus the reader`s extensions (0b, signed radix forms)',
                        'tokenisation of YAML, TOML, XML and CBOR framing are third-party parsers: only scalar decisions, domains and round trips are specified',
                        'TOML: decimal literals beyond the range of a double and integers beyond 64 bits are written but not read back (documented); CBOR: invalid UTF-8 in text and the spelling of decimal literals are the documented exceptions',
                        'XML documents come from a generator over 20 items, not from mutations of the repository`s XHTML examples']


def check_C04(chk):
    q = chk.tier == 'quick'
    n = 100000 if q else 500000
    stack = 2 << 20
    slack = 65536
    chk.rule = ('classification: the compiler`s decision for every call of a local definition (Inline / Throw / CatchOne / CatchAll from the set of tail-callable ancestors) is specified in JaqCompile; TLC runs an abstract machine on it for 63 nests and checks that the number of frames is bounded and every thrown tail call is caught (controls must exceed the bound); the real compiler, built with a hook, must report the same classification for every nest. mechanism: TLC explores the trampoline state machine (JaqTramp: Stack::next / def_run, a thrown tail call is an item, an iterator is pushed back only if it may have more) '
                'for the loop shapes `step | f`, `., (step | f)`, `c // (step | f)` and 0..6 iterations: the stack of suspended iterators never exceeds two (a control with the decision taken '
                'before the item must violate it). programs: TLC enumerates 10 nest kinds (self, parent, grandparent, earlier sibling, uncle, self-and-parent in turn, variable argument, variable '
                'argument via parent, filter argument, filter argument used) x 9 tail positions (| , with and without output, //, as, else, after a local def, foreach projection, elif), 27 wrapped '
                'under first / limit / label, 19 built-in loops for values and for paths, and 10 controls with the call in a non-tail position; it checks that the syntactic predicate '
                f'AllRecCallsTail accepts exactly the non-controls and computes the stream for $n = 3. The harness checks that stream, then runs every program at $n = {n} and {2 * n} in a thread '
                f'with a {stack >> 20} MiB stack under a counting allocator: it must complete, and peak live heap may grow by at most {slack} bytes from N to 2N. Controls must overflow or grow.')
    for disc, must_hold in (('after', True), ('before', False)):
        res = vlib.run_tlc('MC_Tramp', f'SPECIFICATION Spec\nCONSTANTS\n  MaxN = 6\n  Discipline = "{disc}"\nINVARIANTS StackBounded AllProduced\nCHECK_DEADLOCK FALSE\n', f'C04-tramp-{disc}', workers=4)
        if must_hold:
            chk.add_tlc(res)
            for inv in res['invariant_violated']:
                chk.violation(f'spec:tramp:{inv}', f'TLC: invariant {inv} of JaqTramp violated (see {res["out"]})', {'tlc_out': res['out']})
        elif 'StackBounded' not in res['invariant_violated']:
            raise ToolError('the control discipline of JaqTramp does not violate StackBounded: the invariant is vacuous')
    # the compiler's call classification: specified (JaqCompile), model-checked with the machine, compared with the real compiler
    import subprocess
    vlib.build_harness()
    hooked = vlib.build_jaq_hooked()
    ncls = 0
    for suite, must_hold in (('tail', True), ('control', False)):
        res = vlib.run_tlc('MC_Compile', f'SPECIFICATION Spec\nCONSTANT Suite = "{suite}"\nINVARIANTS BoundedDepth ThrowsAreCaught\nCHECK_DEADLOCK FALSE\n', f'C04-compile-{suite}', workers=4)
        if must_hold:
            chk.add_tlc(res)
            for inv in res['invariant_violated']:
                chk.violation(f'spec:compile:{inv}', f'TLC: invariant {inv} of JaqCompile violated: the classification does not keep the machine bounded (see {res["out"]})', {'tlc_out': res['out']})
        elif 'BoundedDepth' not in res['invariant_violated']:
            raise ToolError('the non-tail controls do not exceed the frame bound of JaqCompile: the bound is vacuous')
        if not must_hold:
            continue
        vp_ = os.path.join(W, 'vec-C04-compile.ndjson')
        nv = vlib.write_vectors(vlib.tagged_lines(res['out'], 'VEC'), vp_, 'cls-')
        texts_ = subprocess.run([vlib.HARNESS, 'text', vp_], stdout=subprocess.PIPE, text=True).stdout.splitlines()
        for line, text in zip(open(vp_), texts_):
            v = json.loads(line)
            pr = subprocess.run([hooked, '-n', '--argjson', 'n', '3', text], stdout=subprocess.PIPE, stderr=subprocess.PIPE, text=True)
            lines = [l.split() for l in pr.stderr.splitlines() if l.startswith('JAQ_VERIF ')]
            if ['JAQ_VERIF', 'Main', '0'] not in lines:
                raise ToolError(f'the hooked compiler did not report the main module for `{text}`: {pr.stderr[:300]}')
            real = [[int(l[2]), l[3]] for l in lines[lines.index(['JAQ_VERIF', 'Main', '0']) + 1:] if l[1] == 'Call']
            spec = [[c['ar'], c['typ']] for c in v['calls']]
            ncls += 1
            chk.evaluations += 1
            chk.traces += 1
            if real != spec:
                chk.violation(f"classify:{v['name']}", f"{v['name']}: `{text}`: the compiler classifies the calls of local definitions as {real}, the specification (JaqCompile) as {spec}", {'vec': v, 'real': real})
    chk.extra['classified_nests'] = ncls
    os.environ['HARNESS_TIMEOUT'] = '600'
    tot = {'programs': 0, 'completed': 0, 'controls': 0, 'controls_failing': 0}
    for suite in ('user', 'wrap', 'builtin', 'control'):
        res = vlib.run_tlc('MC_Tail', f'SPECIFICATION Spec\nCONSTANTS\n  Suite = "{suite}"\nINVARIANTS PredicateAgrees ControlsAreNotTail Specified\nCHECK_DEADLOCK FALSE\n', f'C04-{suite}', workers=8)
        chk.add_tlc(res)
        for inv in res['invariant_violated']:
            chk.violation(f'spec:tail:{suite}:{inv}', f'TLC: invariant {inv} of MC_Tail violated in suite {suite} (see {res["out"]})', {'tlc_out': res['out']})
        vec = os.path.join(W, f'vec-C04-{suite}.ndjson')
        nv = vlib.write_vectors(vlib.tagged_lines(res['out'], 'VEC'), vec, f'{suite}-', extra={'mode': 'tailrec', 'n': n, 'stack': stack})
        if nv == 0:
            raise ToolError(f'no programs from MC_Tail/{suite}')
        out = os.path.join(W, f'res-C04-{suite}.ndjson')
        vlib.replay(vec, out, jobs=8)
        vecs = {json.loads(l)['id']: json.loads(l) for l in open(vec)}
        for l in open(out):
            r = json.loads(l)
            v = vecs.get(r.get('id'), r.get('vec', {}))
            name, text = v.get('name', '?'), r.get('text', '')
            tot['programs'] += 1
            chk.evaluations += 3
            chk.traces += 1
            chk.nontrivial.add(name)
            failed = None
            if not r.get('ok'):
                failed = ('crash' if r.get('crash') else 'result', f"{r.get('why', '')[:200]}")
            else:
                m = r['m']
                grow = m[1]['peak'] - m[0]['peak']
                if v.get('heap') and grow > slack:
                    failed = ('heap', f"peak live heap {m[0]['peak']} bytes at $n = {m[0]['n']}, {m[1]['peak']} at $n = {m[1]['n']} (+{grow})")
                if tot['programs'] % 17 == 3:
                    chk.sample({'name': name, 'program': text, 'measured': m})
            if v.get('positive'):
                if failed:
                    chk.violation(f'tail:{name}:{failed[0]}', f'{name}: `{text}` with $n = {n}, {2 * n} on a {stack >> 20} MiB stack: {failed[1]}', {'vec': v, 'result': {k: r[k] for k in r if k != "vec"}})
                else:
                    tot['completed'] += 1
            else:
                tot['controls'] += 1
                tot['controls_failing'] += 1 if failed else 0
    chk.extra['totals'] = tot
    if tot['controls_failing'] < tot['controls']:
        raise ToolError(f"only {tot['controls_failing']} of {tot['controls']} non-tail controls overflow or grow: the measurement does not discriminate")
    chk.assumptions += ['the decision on the real code is a measurement (fixed small stack, counting allocator) on the TLC-enumerated programs; the trampoline model assumes exact knowledge of exhaustion '
                        'where the real iterator adapters report it through size_hint',
                        'the call classification is compared through a cfg-guarded hook that prints arity and call type in compilation order; definitions are identified by name (unique in the generated nests)',
                        'programs whose input grows with $n (`..` over an array of $n elements) are checked for stack only']


def check_C19(chk):
    import subprocess, corpus
    q = chk.tier == 'quick'
    chk.rule = ('design: TLC explores all interleavings of 3 threads x 2 runs over 2 jobs of JaqConc (runs share the compiled filters, which no action writes): every run yields what the job yields '
                'alone. static: the harness asserts `Filter: Send + Sync` at compile time, and a second harness built against jaq-json with feature `sync` asserts it for `Val` too. dynamic: '
                'every example of the manual that does not read the clock / environment / input (about 540 filters, all built-in families incl. regex, @html, dates, formats) is compiled once; '
                'each is run (a) alone in a fresh process, (b) one after the other in one process in two shuffled orders, (c) from T threads x R rounds in per-thread shuffled order, released by '
                'a barrier, sharing the compiled filters; every recorded run <<thread, seq, job, outputs>> is validated by TLC (Trace_Conc) against the table of isolated runs. Same for the '
                'thread-safe value representation with one input value shared by all threads. history: about 110 micro filters (one native each; one regular expression under twelve flag sets x five regex filters) run as all ordered pairs back to back on one thread and concurrently.')
    res = vlib.run_tlc('MC_Conc', 'SPECIFICATION Spec\nCONSTANTS\n Threads = {1, 2, 3}\n Jobs = {"a", "b"}\n Eval <- MCEval\n MaxRuns = 2\n Cache = FALSE\nINVARIANTS RunsEqualIsolated SharedIsConstant\nCHECK_DEADLOCK FALSE\n',
                       'C19-design', workers=8)
    ctl = vlib.run_tlc('MC_Conc', 'SPECIFICATION Spec\nCONSTANTS\n Threads = {1, 2, 3}\n Jobs = {"a", "b"}\n Eval <- MCEval\n MaxRuns = 2\n Cache = TRUE\nINVARIANTS RunsEqualIsolated\nCHECK_DEADLOCK FALSE\n',
                       'C19-design-control', workers=8)
    if 'RunsEqualIsolated' not in ctl['invariant_violated']:
        raise ToolError('the control of JaqConc (a process-wide first-wins cache) does not violate RunsEqualIsolated: the invariant is vacuous')
    chk.add_tlc(res)
    for inv in res['invariant_violated']:
        chk.violation(f'spec:conc:{inv}', f'TLC: invariant {inv} of JaqConc violated (see {res["out"]})', {'tlc_out': res['out']})
    vlib.build_harness()
    skip = re.compile(r'\b(now|localtime|strflocaltime|input|inputs|env|input_filename|halt|halt_error|debug|stderr|repl|input_line_number|getpath\(\["a","b"\]\)x)\b|\$ENV|\$__loc__|\$__prog')
    jobs = [e for e in corpus.examples() if not skip.search(e['text'])]
    jp = os.path.join(W, 'C19-jobs.ndjson')
    with open(jp, 'w') as f:
        for e in jobs:
            f.write(json.dumps({'id': e['id'], 'text': e['text']}) + '\n')
    def hz(*a):
        r = subprocess.run([vlib.HARNESS, 'conc'] + list(a), stdout=subprocess.PIPE, stderr=subprocess.PIPE, text=True)
        if r.returncode != 0:
            raise ToolError(f'harness conc {a[0]} failed: {r.stderr[-500:]}')
    alone_p = os.path.join(W, 'C19-alone.ndjson')
    hz('alone', jp, alone_p)
    alone = {}
    for l in open(alone_p):
        j = json.loads(l)
        # several examples share a position in the manual: the identifier is made unique below
        alone.setdefault(j['job'], j['out'])
    # identifiers must be unique for the table
    if len(alone) != len(jobs):
        seen = {}
        jobs2 = []
        for e in jobs:
            seen[e['id']] = seen.get(e['id'], 0) + 1
            jobs2.append({'id': e['id'] if seen[e['id']] == 1 else f"{e['id']}#{seen[e['id']]}", 'text': e['text']})
        with open(jp, 'w') as f:
            for e in jobs2:
                f.write(json.dumps(e) + '\n')
        hz('alone', jp, alone_p)
        alone = {json.loads(l)['job']: json.loads(l)['out'] for l in open(alone_p)}
        jobs = jobs2
    texts = {e['id']: e['text'] for e in jobs}
    T, R = (4, 2) if q else (16, 6)
    runs = []
    # micro jobs: one native each, and the same regular expression under every set of flags; run as all ordered pairs
    # back to back (a result must not depend on what ran just before) and concurrently
    flags = ['', 'g', 'i', 'x', 's', 'n', 'l', 'gx', 'gi', 'xi', 'gs', 'nx']
    micro = ['"<&>\\"\'" | @html', '"&lt;&amp;&gt;&quot;&apos;" | @htmld', '"a b/ä" | @uri', '"a%20b%2F%C3%A4" | @urid', '"aä" | @base64', '"YcOk" | @base64d', '"a\'b" | @sh', '[1,"a,b"] | @csv',
             '[1,"a\tb"] | @tsv', '{"a":[1]} | @json', '[1] | @text', '[1,"a"] | tojson', '"[1,2.50]" | fromjson', '"aXbxc" | ascii_downcase', '"aXbxc" | ascii_upcase', '"a,b" | split(",")',
             '"a,b" | split(", *"; null)', '0 | strftime("%Y-%m-%d")', '0 | strftime("%H:%M:%S")', '0 | todate', '"1970-01-02T00:00:00Z" | fromdate', '86400 | gmtime', '[1970,0,2,0,0,0] | mktime',
             '"1970-01-02" | strptime("%Y-%m-%d")', '"02/01/1970" | strptime("%d/%m/%Y")', '[3,1,2] | sort', '[{"a":2},{"a":1}] | sort_by(.a)', '"abc" | ltrimstr("a")', '"abc" | rtrimstr("c")',
             '"1.50" | tonumber', '1.5 | tostring', '[1,[2]] | flatten', '{"a":1} | to_entries', '"aä" | explode', '[97,228] | implode', '"aä" | tobytes', '"a-b" | ascii', '2 | pow(.; 10)', '1.5 | floor',
             '"x" | ltrimstr("x") | length', '[1,2] | tocsv', '"1,2" | fromcsv', '{"a":1} | toyaml', '"a: 1" | fromyaml', '{"a":1} | totoml', '"a = 1" | fromtoml', '[1] | tocbor | fromcbor',
             '"<a b=\\"1\\">t</a>" | fromxml', '{"t":"a"} | toxml', '"a\tb" | fromtsv', '["a","b"] | totsv']
    for fl in flags:
        micro += [f'"ab a b AB\\nab" | [match("a b"; "{fl}").string]', f'"ab a b AB\\nab" | test("A B"; "{fl}")', f'"n # 1" | sub("# \\\\d"; "_"; "{fl}")', f'"aXbxc" | [scan("x"; "{fl}")]',
                  f'"a.b\\nc" | [match("a.b.c"; "{fl}").length]']
    mp = os.path.join(W, 'C19-micro.ndjson')
    with open(mp, 'w') as f:
        for i, t in enumerate(micro):
            f.write(json.dumps({'id': f'm{i}', 'text': t}) + '\n')
            texts[f'm{i}'] = t
    malone_p = os.path.join(W, 'C19-micro-alone.ndjson')
    hz('alone', mp, malone_p)
    malone = {json.loads(l)['job']: json.loads(l)['out'] for l in open(malone_p)}
    chk.extra['micro_jobs'] = len(micro)
    chk.extra['micro_not_compiling'] = sum(1 for v in malone.values() if v == ['<does not compile>'])
    mruns = []
    for name, args in (('pairs', ['pairs', mp, None]), ('micro-par', ['par', mp, None, str(T), str(R * 5), str(chk.seed + 5)])):
        outp = os.path.join(W, f'C19-{name}.ndjson')
        args[2] = outp
        hz(*args)
        mruns.append((name, outp))
    for name, args in (('seq1', ['seq', jp, None, str(chk.seed + 1)]), ('seq2', ['seq', jp, None, str(chk.seed + 2)]), ('par', ['par', jp, None, str(T), str(R), str(chk.seed + 3)]),
                       ('par2', ['par', jp, None, '2', str(R), str(chk.seed + 4)])):
        outp = os.path.join(W, f'C19-{name}.ndjson')
        args[2] = outp
        hz(*args)
        runs.append((name, outp))
    # trace validation: table first, then every recorded run
    def validate(name, table, lines):
        # long logs are validated in chunks of 20 000 runs (each with the table in front)
        if len(lines) > 20000:
            return sum(validate(f'{name}.{k // 20000}', table, lines[k:k + 20000]) for k in range(0, len(lines), 20000))
        tr = os.path.join(W, f'trace-C19-{name}.ndjson')
        with open(tr, 'w') as f:
            f.write(json.dumps({'alone': table}) + '\n')
            for l in lines:
                f.write(l if l.endswith('\n') else l + '\n')
        res = vlib.run_tlc('Trace_Conc', 'SPECIFICATION Spec\nINVARIANTS Report RunsEqualIsolated SharedIsConstant\nCHECK_DEADLOCK FALSE\n', f'C19-trace-{name}', workers=1, timeout=3000,
                           env_extra={'TRACE': tr}, xss='1g', heap='4g')
        chk.add_tlc(res)
        if not list(vlib.tuple_lines(res['out'], 'RESULT')):
            raise ToolError(f'Trace_Conc did not consume the trace {tr}: {res["out"]}')
        n = 0
        for l in vlib.tagged_lines(res['out'], 'REJECTED'):
            rec = json.loads(l)
            r = rec['rec']
            chk.violation(f"{name.split('.')[0].rstrip('12')}:{r['job']}", f"{name}: `{texts.get(r['job'], r['job'])}` yields {json.dumps(r['out'])[:200]} (thread {r['t']}, run {r['seq']}); alone it yields {json.dumps(rec['alone'])[:200]}", rec)
            n += 1
        return n
    total = 0
    for name, outp in runs:
        lines = open(outp).readlines()
        total += len(lines)
        validate(name, alone, lines)
    for name, outp in mruns:
        lines = open(outp).readlines()
        total += len(lines)
        validate(name, malone, lines)
    chk.traces += total
    chk.evaluations += total + len(alone)
    chk.nontrivial_rule = 'a job that compiles and yields at least one output or an error when run alone'
    for tab in (alone, malone):
        for j, o in tab.items():
            if o and o != ['<does not compile>']:
                chk.nontrivial.add(j)
    for name, outp in (runs + mruns)[:4]:
        for k, l in enumerate(open(outp)):
            if k == 5:
                r = json.loads(l)
                chk.sample({'run': name, 'thread': r['t'], 'seq': r['seq'], 'filter': texts.get(r['job']), 'outputs': r['out'][:3]})
    chk.extra['jobs'] = len(jobs)
    chk.extra['recorded_runs'] = total
    chk.extra['threads_rounds'] = [T, R]
    # thread-safe value representation
    sdir = '/verif/harness-sync'
    if not os.path.exists(os.path.join(sdir, 'Cargo.lock')):
        shutil.copy('/repo/Cargo.lock', os.path.join(sdir, 'Cargo.lock'))
    b = subprocess.run(['cargo', 'build', '--release', '--offline'], cwd=sdir, env=vlib.ENV, stdout=subprocess.PIPE, stderr=subprocess.STDOUT, text=True)
    if b.returncode != 0:
        if 'cannot be sent between threads safely' in b.stdout or 'cannot be shared between threads safely' in b.stdout or 'E0277' in b.stdout:
            msg = [l for l in b.stdout.splitlines() if 'error' in l][:3]
            chk.violation('static:send-sync', f'with jaq-json feature `sync`, `Val` / the compiled filter are not Send + Sync: {" ".join(msg)[:400]}', {'build_output': b.stdout[-3000:]})
        else:
            raise ToolError('harness-sync build failed:\n' + b.stdout[-3000:])
    else:
        sjobs = ['.', '.[]', 'map(tostring)', 'tojson', '.[1] * 2', '[.[] | numbers | . + 0.5]', 'to_entries', 'sort', 'group_by(type)', '[..]', '[paths]', 'tojson | fromjson', '.[8]', '.[8].a[1].b',
                 '[.[] | tojson | fromjson]', 'map(type)', 'unique', '.[1] + .[1]', '.[8].c == .[1]', 'del(.[0])', '.[8] |= keys', 'map(select(type == "number")) | add', '[.[] | strings | ascii_downcase]',
                 'first(.[] | arrays)', 'reverse', 'min, max', 'flatten', 'index(2.5)', 'map(. == .)', 'tostring', '@json', 'length', '[limit(3; repeat(.[0]))]', 'with_entries(.value |= tostring)',
                 '.[3] | tostring', '.[4], .[3]', '[.[1], .[8].c] | unique', 'walk(if type == "number" then . + 1 else . end)']
        sp = os.path.join(W, 'C19-sync-jobs.ndjson')
        with open(sp, 'w') as f:
            for i, t in enumerate(sjobs):
                f.write(json.dumps({'id': f's{i}', 'text': t}) + '\n')
        so = os.path.join(W, 'C19-sync.ndjson')
        r = subprocess.run([os.path.join(sdir, 'target', 'release', 'jaq-verif-harness-sync'), sp, so, '8' if q else '16', '20' if q else '100'], stdout=subprocess.PIPE, stderr=subprocess.PIPE, text=True)
        if r.returncode != 0:
            raise ToolError(f'harness-sync failed: {r.stderr[-500:]}')
        lines = open(so).readlines()
        table = json.loads(lines[0])['alone']
        texts.update({f's{i}': t for i, t in enumerate(sjobs)})
        validate('sync', table, lines[1:])
        chk.traces += len(lines) - 1
        chk.evaluations += len(lines) - 1
        chk.extra['sync_runs'] = len(lines) - 1
    chk.assumptions += ['schedules are those the OS scheduler produces for barrier-released threads; interleavings inside std reference counting are not enumerated',
                        'filters reading the clock, the environment or the input stream are excluded, as the property says',
                        'isolated = a fresh process per job; outputs are compared as printed values (first 64 outputs)']


def check_C06(chk):
    import subprocess, syscheck, corpus
    q = chk.tier == 'quick'
    chk.rule = ('design: the phase automaton JaqSys (startup / load / exec; classes of paths runtime, load, input, tz, other; no action for write-opens, other paths, load files after execution '
                'began, tz unless the filter is a time filter, sockets, processes, file-system changes) is model-checked for type, phase order and non-vacuity. library: every native filter and '
                'definition of the current tree (discovered at run time) x 22 honeypot arguments (paths, URLs, shell commands, path traversals, zone names, DOCTYPE/ENTITY, YAML tags) as input and as '
                'every argument, the manual`s filters, time filters with attacker formats, every decoder on adversarial documents - all compiled first, then run in one traced process after a '
                'marker system call; every system call after the marker is an event validated by TLC (Trace_Sys) against JaqSys. binary: 30 command-line scenarios (several inputs, -f, modules and '
                'data imports, --rawfile/--slurpfile, honeypot file names as --arg/--args/--argjson/environment/stdin values incl. non-UTF-8 names, input/inputs, decoders, in-place with failing '
                'runs) traced and validated the same way, with the allowed files computed from the command line; the scratch tree must hold the same files afterwards.')
    res = vlib.run_tlc('MC_Sys', 'SPECIFICATION Spec\nINVARIANTS TypeOK\nPROPERTY PhaseOrder\nCHECK_DEADLOCK FALSE\n', 'C06-design', workers=4)
    chk.add_tlc(res)
    for inv in res['invariant_violated']:
        chk.violation(f'spec:sys:{inv}', f'TLC: {inv} of JaqSys violated (see {res["out"]})', {'tlc_out': res['out']})
    res2 = vlib.run_tlc('MC_Sys', 'SPECIFICATION Spec\nINVARIANTS CanReadAll\nCHECK_DEADLOCK FALSE\n', 'C06-nonvacuity', workers=4)
    if 'CanReadAll' not in res2['invariant_violated']:
        raise ToolError('JaqSys does not admit the intended run (load file, input, time-zone database): the automaton is vacuous')
    vlib.build_harness()
    vlib.build_jaq()
    base = os.path.join(W, 'c06')
    shutil.rmtree(base, ignore_errors=True)
    hp = os.path.join(base, 'honeypot')
    os.makedirs(hp)
    open(os.path.join(hp, 'secret.txt'), 'w').write('"s3cret"\n')
    open(os.path.join(hp, 'cmd.sh'), 'w').write('touch pwned\n')
    S = lambda s: {'t': 'str', 'c': [ord(c) for c in s]}
    sec = os.path.join(hp, 'secret.txt')
    honey = [sec, 'file://' + sec, 'http://127.0.0.1:9/x', f'; touch {hp}/pwned1', f'$(touch {hp}/pwned2)', f'| touch {hp}/pwned3', f'`touch {hp}/pwned4`', '../' * 12 + sec.lstrip('/'),
             '/etc/passwd', '~/.ssh/id_rsa', '../../../etc/hostname', 'Europe/Vienna', '%Q %Z', f'<!DOCTYPE r [<!ENTITY e SYSTEM "file://{sec}">]><r>&e;</r>',
             f'<r xmlns:xi="http://www.w3.org/2001/XInclude"><xi:include href="{sec}"/></r>', f'!include {sec}', f"!!python/object/apply:os.system ['touch {hp}/pwned5']",
             f'a: &a {{f: {sec}}}\nb: {{<<: *a}}', f'include "{sec}"; .', f'import "{sec}" as $x; $x', '-', '/dev/tcp/127.0.0.1/9']
    hvals = [S(h) for h in honey] + [{'t': 'null'}, {'t': 'int', 'n': 0}]
    names = subprocess.run([vlib.HARNESS, 'sys', 'names'], stdout=subprocess.PIPE, text=True).stdout.split()
    skipn = {'halt/0', 'halt/1', 'halt_error/0', 'halt_error/1', 'repl/0', 'repl/1'}
    cases = []
    hsel = hvals if not q else hvals[:3] + hvals[8:14] + hvals[15:17]
    for na in names:
        if na in skipn:
            continue
        n, a = na.rsplit('/', 1)
        call = n + ('(' + '; '.join(['$h'] * int(a)) + ')' if int(a) else '')
        for i, h in enumerate(hsel):
            cases.append({'id': f'{na}#{i}', 'text': f'try limit(4; $h | {call}) catch .', 'vars': [['h', h]], 'cap': 6})
    tf = ['$h | strptime("%F %Q")', '"2000-01-01 " + $h | strptime("%F %Q")', '"1 " + $h | strptime("%s %Q")', '0 | strftime($h)', '0 | strflocaltime($h)', '0 | strflocaltime("%Z %Q")', '0 | localtime', 'now | localtime | mktime',
          '$h | fromdate', '0 | todate', '$h | strptime($h)', '[0,0,0,0,0,0] | strftime($h)']
    for t in tf:
        for i, h in enumerate(hvals[:20]):
            cases.append({'id': f'time:{t}#{i}', 'text': f'try ({t}) catch .', 'vars': [['h', h]]})
    for dec in ('fromyaml', 'fromxml', 'fromtoml', 'fromcsv', 'fromtsv', 'fromjson', 'tobytes | fromcbor', '@base64d', 'fromxml | toxml', 'fromyaml | toyaml', 'fromxml | tojson'):
        for i, h in enumerate(hvals[:22]):
            cases.append({'id': f'dec:{dec}#{i}', 'text': f'try limit(8; $h | {dec}) catch .', 'vars': [['h', h]]})
    skipc = re.compile(r'\b(halt|halt_error|repl)\b')
    for e in corpus.examples()[:(150 if q else 600)]:
        if not skipc.search(e['text']):
            cases.append({'id': 'manual:' + e['id'], 'text': e['text'], 'vars': []})
    cp, op, lg = os.path.join(base, 'cases.ndjson'), os.path.join(base, 'out.ndjson'), os.path.join(base, 'strace.log')
    with open(cp, 'w') as f:
        for c in cases:
            f.write(json.dumps(c) + '\n')
    open(op, 'w').close()
    start, hangs, logs = 0, [], []
    while start < len(cases):
        # a case that makes no progress for 20 s (an endless loop such as `until(null; null)`) is cut by the watchdog
        rc, _, err = syscheck.strace([vlib.HARNESS, 'sys', 'run', cp, op, str(start)], lg, cwd=base, timeout=7200, progress_file=op, stall_s=20)
        logs.append(open(lg, errors='replace').read())
        done = sum(1 for _ in open(op))
        if done >= len(cases):
            break
        # the case after the last finished one hung or killed the process: it is data, continue behind it
        hangs.append((cases[done]['id'], rc))
        with open(op, 'a') as f:
            f.write(json.dumps({'id': cases[done]['id'], 'items': 0, 'end': 'hang' if rc is None else f'died({rc})'}) + '\n')
        start = done + 1
    tr = os.path.join(W, 'trace-C06.ndjson')
    nev = 0
    with open(tr, 'w') as f:
        for k, text in enumerate(logs):
            evs = syscheck.events(text, lambda p: syscheck.base_class(p) or 'other', cwd=base)
            f.write(json.dumps({'ev': 'header', 'id': f'library-driver-{k}', 'tz': False}) + '\n')
            live = False
            for e in evs:
                if e['ev'] == 'marker':
                    if e['m'] == 'exec':
                        live = True
                        f.write(json.dumps({'ev': 'marker', 'm': 'exec', 'tz': False, 'id': 'exec'}) + '\n')
                    elif e['m'].startswith('case/'):
                        c = cases[int(e['m'][5:])]
                        f.write(json.dumps({'ev': 'marker', 'm': 'case', 'tz': bool(syscheck.TZ_FILTERS.search(c['text'])), 'id': c['id'] + ' :: ' + c['text'][:120]}) + '\n')
                    continue
                if not live or e['ev'] == 'exit':
                    continue
                if e['ev'] == 'open' and e.get('failed') and e['cls'] in ('runtime', 'tz'):
                    continue
                f.write(json.dumps(e) + '\n')
                nev += 1
        # ---- the real binary ----
        wd = os.path.join(base, 'w')
        os.makedirs(os.path.join(wd, 'lib'))
        files = {'in1.json': b'1 {"file":"secret.txt","cmd":"touch pwned"}\n', 'in2.json': b'[2]\n', 'prog.jq': b'include "m"; import "d" as $d; f, $d\n', 'lib/m.jq': b'def f: "m";\n', 'lib/d.json': b'[1]\n',
                 'raw.txt': b'raw\n', 'slurp.json': b'1 2\n', 'secret.txt': b'"s3cret"\n', b'note\xff.txt': b'{"secret":42}\n', '-n': b'3\n', 'a b': b'4\n', 'doc.yaml': (f'a: !include {sec}\nb: &x [1]\nc: *x\n').encode(),
                 'doc.xml': f'<?xml version="1.0"?><!DOCTYPE r [<!ENTITY e SYSTEM "file://{sec}">]><r a="secret.txt">&amp;<?pi secret.txt?></r>'.encode(), 'doc.toml': b'a = "secret.txt"\n', 'doc.csv': b'secret.txt,1\n',
                 'ip1.json': b'1 2\n', 'ip2.json': b'3 oops\n'}
        for n, c in files.items():
            pth = os.path.join(wd.encode(), n if isinstance(n, bytes) else n.encode())
            open(pth, 'wb').write(c)
        J = vlib.JAQ
        A = lambda *ns: {os.path.join(wd.encode(), n if isinstance(n, bytes) else n.encode()) for n in ns}
        sc = [  # (id, args, load files, input files, tz, stdin)
            ('two-inputs', ['.', 'in1.json', 'in2.json'], A(), A('in1.json', 'in2.json'), False, None),
            ('from-file-modules', ['-L', 'lib', '-f', 'prog.jq', 'in1.json'], A('prog.jq', 'lib/m.jq', 'lib/d.json'), A('in1.json'), False, None),
            ('inline-modules', ['-L', 'lib', 'include "m"; import "d" as $d; f, $d', 'in1.json', 'in2.json'], A('lib/m.jq', 'lib/d.json'), A('in1.json', 'in2.json'), False, None),
            ('rawfile-slurpfile', ['--rawfile', 'r', 'raw.txt', '--slurpfile', 's', 'slurp.json', '$r, $s', 'in1.json'], A('raw.txt', 'slurp.json'), A('in1.json'), False, None),
            ('arg-names-file', ['-n', '--arg', 'x', 'secret.txt', '$x, ($x | tojson | fromjson), $__prog_args'], A(), A(), False, None),
            ('argjson-names-file', ['-n', '--argjson', 'x', '"secret.txt"', '$x'], A(), A(), False, None),
            ('args-name-files', ['-n', '$ARGS', '--args', 'secret.txt', b'note\xff.txt', 'a b', '-n'], A(), A(), False, None),
            ('args-non-utf8', ['-c', '[., $ARGS.positional]', '--args', 'a', b'note\xff.txt', 'b'], A(), A(), False, b'null'),
            ('jsonargs', ['-n', '$ARGS', '--jsonargs', '"secret.txt"', '{"f":"secret.txt"}'], A(), A(), False, None),
            ('data-names-file', ['.[1]? | .file, .cmd | tostring | ltrimstr("x")', 'in1.json'], A(), A('in1.json'), False, None),
            ('stdin-names-file', ['.file, (.file | @sh, @uri, @json), input_filename'], A(), A(), False, b'{"file":"secret.txt"}'),
            ('env-names-file', ['-n', '$ENV.SECRET, env.SECRET'], A(), A(), False, None),
            ('input-inputs', ['-n', 'input, [inputs]', 'in1.json', 'in2.json'], A(), A('in1.json', 'in2.json'), False, None),
            ('first-inputs', ['-n', 'first(inputs)', 'in1.json', 'in2.json'], A(), A('in1.json', 'in2.json'), False, None),
            ('slurp', ['-s', '.', 'in1.json', 'in2.json'], A(), A('in1.json', 'in2.json'), False, None),
            ('raw-input', ['-R', '.', 'raw.txt'], A(), A('raw.txt'), False, None),
            ('yaml-doc', ['--from', 'yaml', '.', 'doc.yaml'], A(), A('doc.yaml'), False, None),
            ('xml-doc', ['--from', 'xml', '.', 'doc.xml'], A(), A('doc.xml'), False, None),
            ('toml-doc', ['--from', 'toml', '.a', 'doc.toml'], A(), A('doc.toml'), False, None),
            ('csv-doc', ['--from', 'csv', '.[0]', 'doc.csv'], A(), A('doc.csv'), False, None),
            ('to-formats', ['--to', 'yaml', '.', 'in2.json'], A(), A('in2.json'), False, None),
            ('localtime', ['-n', '0 | localtime, strflocaltime("%Z")'], A(), A(), True, None),
            ('zone-name', ['-n', '"1 Europe/Vienna" | strptime("%s %Q")'], A(), A(), True, None),
            ('zone-traversal', ['-n', 'try ("1 ../../../etc/hostname" | strptime("%s %Q")) catch "rejected"'], A(), A(), True, None),
            ('gmtime-no-tz', ['-n', '0 | gmtime, todate'], A(), A(), False, None),
            ('error-run', ['.[] | error', 'in2.json'], A(), A('in2.json'), False, None),
            ('file-named-dash-n', ['.', './-n', 'a b'], A(), A('-n', 'a b'), False, None),
        ]
        inplace = [('in-place-ok', ['-i', '.+1', 'ip1.json']), ('in-place-parse-error', ['-i', '.', 'ip2.json']), ('in-place-runtime-error', ['-i', 'if . == 2 then error else . end', 'ip1.json'])]
        env = dict(os.environ, SECRET='secret.txt', HOME=wd)
        def snapshot():
            out = set()
            for root, ds, fs in os.walk(base.encode()):
                out |= {os.path.join(root, x) for x in fs + ds}
            return out
        for sid, args, load, inp, tz, stdin in sc:
            before = snapshot()
            lg2 = os.path.join(base, 'strace2.log')
            rc, out, err = syscheck.strace([J] + args, lg2, cwd=wd, env=env, stdin=stdin, timeout=120)
            def cls(p, load=load, inp=inp):
                return 'load' if p in load else 'input' if p in inp else (syscheck.base_class(p) or 'other')
            evs = syscheck.events(open(lg2, errors='replace').read(), cls, cwd=wd)
            f.write(json.dumps({'ev': 'header', 'id': f'jaq {" ".join(a.decode("utf-8", "backslashreplace") if isinstance(a, bytes) else a for a in args)}', 'tz': tz}) + '\n')
            for e in evs:
                if e['ev'] == 'marker' or (e['ev'] == 'open' and e.get('failed') and e['cls'] in ('runtime', 'tz')):
                    continue
                f.write(json.dumps(e) + '\n')
                nev += 1
            for x in sorted(snapshot() ^ before):
                if not x.endswith(b'strace2.log'):
                    f.write(json.dumps({'ev': 'bad', 'what': 'fsmod', 'call': 'file appeared or vanished: ' + x.decode('utf-8', 'backslashreplace')}) + '\n')
            chk.traces += 1
        for sid, args in inplace:
            before = snapshot()
            subprocess.run([J] + args, cwd=wd, env=env, stdout=subprocess.PIPE, stderr=subprocess.PIPE)
            f.write(json.dumps({'ev': 'header', 'id': f'jaq {" ".join(args)}', 'tz': False}) + '\n')
            for x in sorted(snapshot() ^ before):
                f.write(json.dumps({'ev': 'bad', 'what': 'fsmod', 'call': 'file appeared or vanished: ' + x.decode('utf-8', 'backslashreplace')}) + '\n')
            chk.traces += 1
    # honeypot must be untouched
    left = sorted(os.listdir(hp))
    if left != ['cmd.sh', 'secret.txt']:
        chk.violation('honeypot:' + ','.join(left), f'the honeypot directory was changed: {left}', {'files': left})
    res = vlib.run_tlc('Trace_Sys', 'SPECIFICATION Spec\nINVARIANTS TypeOK Report\nCHECK_DEADLOCK FALSE\n', 'C06-trace', workers=1, timeout=3000, env_extra={'TRACE': tr}, xss='1g', heap='4g')
    chk.add_tlc(res)
    if not list(vlib.tuple_lines(res['out'], 'RESULT')):
        raise ToolError(f'Trace_Sys did not consume the trace: {res["out"]}')
    for l in vlib.tagged_lines(res['out'], 'REJECTED'):
        r = json.loads(l)
        e = r['ev']
        what = (f"opened {'for writing ' if e.get('w') else ''}{e.get('path')} (class {e.get('cls')}, phase {r['phase']})" if e['ev'] == 'open' else f"{e.get('what')}: {e.get('call')}")
        who = r['scenario'] + (' / ' + r['case'] if r['case'] and r['case'] != 'exec' else '')
        key = f"{who.split(' :: ')[0]}:{e.get('cls') or e.get('what')}:{(e.get('path') or e.get('call') or '')[:80]}"
        chk.violation(key, f'{who}: {what}', r)
    chk.traces += len(cases)
    chk.evaluations += nev + len(cases)
    chk.nontrivial_rule = 'a library case that compiled and ran to outputs or an error of its own under the tracer'
    for l in open(op):
        r = json.loads(l)
        if r['end'] in ('ok', 'error') :
            chk.nontrivial.add(r['id'])
    for k, l in enumerate(open(tr)):
        if k % 600 == 7:
            chk.sample(json.loads(l))
    chk.extra.update({'library_cases': len(cases), 'filters_discovered': len(names), 'events_validated': nev, 'cli_scenarios': len(sc) + len(inplace), 'hung_or_died_cases': hangs[:20]})
    chk.assumptions += ['system calls are the complete interface to files, network and processes (strace -f; no io_uring: such a call would not be in the allowed set)',
                        'the classes of paths are computed by the driver from the command line; stat / access of a path is not counted as reading it',
                        'the execution phase of the library driver starts at a marker system call after all cases have been compiled',
                        'the documented exceptions `repl` and `halt` are not run; --in-place is checked here only for leftover files (the call sequence is C18`s)']


def run_sys_cases(cases, tag, hang_s=10, mem_gb=8, chunk=20000):
    """run cases through `harness sys run` (no tracing); a hang or a dying process is data: continue behind the case.
    The cases go through the driver in chunks (the driver parses its whole case file at every start; with a small
    file that takes no time, so that the watchdog only ever waits for the filter). -> list of result records in case order"""
    if len(cases) > chunk:
        out = []
        hangs_all = {}
        for k in range(0, len(cases), chunk):
            out += run_sys_cases(cases[k:k + chunk], f'{tag}-{k // chunk}', hang_s, mem_gb, chunk)
        return out
    import subprocess, resource, time as _t
    base = os.path.join(W, f'sys-{tag}')
    shutil.rmtree(base, ignore_errors=True)
    os.makedirs(base)
    cp, op, ep = os.path.join(base, 'cases.ndjson'), os.path.join(base, 'out.ndjson'), os.path.join(base, 'stderr.txt')
    with open(cp, 'w') as f:
        for c in cases:
            f.write(json.dumps(c) + '\n')
    open(op, 'w').close()
    def lim():
        resource.setrlimit(resource.RLIMIT_AS, (mem_gb << 30, mem_gb << 30))
    start = 0
    hangs = {}
    while start < len(cases):
        with open(ep, 'wb') as ef:
            p = subprocess.Popen([vlib.HARNESS, 'sys', 'run', cp, op, str(start), 'lazy'], cwd=base, stdout=subprocess.DEVNULL, stderr=ef, preexec_fn=lim)
            last, t_last = -1, _t.time()
            hung = False
            while p.poll() is None:
                _t.sleep(0.2)
                n = os.path.getsize(op)
                if n != last:
                    last, t_last = n, _t.time()
                elif _t.time() - t_last > hang_s:
                    p.kill()
                    hung = True
            p.wait()
        done = sum(1 for _ in open(op))
        if done >= len(cases):
            break
        err = open(ep, 'rb').read()[-2000:].decode('utf-8', 'replace')
        if hung:
            end = 'hang'
        elif 'memory allocation of' in err or 'has overflowed its stack' in err:
            end = 'exhausted'
        else:
            end = 'died'
        with open(op, 'a') as f:
            f.write(json.dumps({'id': cases[done]['id'], 'items': 0, 'end': end, 'status': p.returncode, 'stderr': err[-300:]}) + '\n')
            start = done + 1
            # a filter that hangs on three argument tuples (per chunk) (an unbounded loop / allocation for huge counts) is not run on the
            # remaining tuples: they are recorded as not run
            grp = cases[done]['id'].split('#')[0]
            if end == 'hang':
                hangs[grp] = hangs.get(grp, 0) + 1
                if hangs[grp] >= 3:
                    while start < len(cases) and cases[start]['id'].split('#')[0] == grp:
                        f.write(json.dumps({'id': cases[start]['id'], 'items': 0, 'end': 'hang', 'not_run': True}) + '\n')
                        start += 1
    return [json.loads(l) for l in open(op)]


def check_C05(chk):
    import subprocess
    q = chk.tier == 'quick'
    rng = random.Random(chk.seed)
    chk.rule = ('the totality contract as a trace specification (Trace_Total: every started computation ends in outputs, a reported error, a rejection with rendered diagnostics, or halt; a panic, '
                'an abort that is not resource exhaustion or a kill by a signal has no action). natives: every native filter and definition of the current tree (discovered at run time) x the '
                'boundary pool supplied by TLC (55 values: 0, +-1, +-2^31, 2^53+1, +-2^63 and neighbours, 2^64, 2^70, floats incl. NaN, +-Infinity, -0.0, huge decimal literals, empty / multi-byte / '
                'invalid UTF-8 / NUL strings, byte strings, empty and nested containers, arrays of code points and broken-down times, slice objects): as input for arity 0, input x argument '
                'for arity 1 (quick: 400 per filter; thorough: all 3025), sampled (thorough: exhaustive over a 10-value sub-pool) for arity 2-3; all regex filters x 14 patterns x 6 flags x 4 '
                'inputs. filter texts: every sequence of <= 2 (thorough 3) of 64 tokens, compiled; rejected ones must render diagnostics. documents: every sequence of <= 2 (3) tokens per format '
                '(YAML 37, XML 30, TOML 29, CSV 15, JSON 28 tokens) through the decoders. Built with overflow checks and debug assertions; panics are caught and reported per case.')
    vlib.build_harness()
    def tlc_cases(suite, size):
        res = vlib.run_tlc('MC_Total', f'SPECIFICATION Spec\nCONSTANTS\n Suite = "{suite}"\n Size = {size}\nINVARIANT TypeOK\nCHECK_DEADLOCK FALSE\n', f'C05-{suite}', workers=8, timeout=3600)
        chk.add_tlc(res)
        if not res['completed']:
            raise ToolError(f'TLC did not complete on MC_Total/{suite}')
        return [json.loads(l) for l in vlib.tagged_lines(res['out'], 'VEC')]
    pool = tlc_cases('pool', 1)[0]['pool']
    # TLC's integers are 32-bit: the extreme machine integers (as machine integers, not as big integers) are added here
    pool += [{'t': 'int', 'n': -9223372036854775808}, {'t': 'int', 'n': 9223372036854775807}, {'t': 'arr', 'a': [{'t': 'int', 'n': -9223372036854775808}]}]
    names = subprocess.run([vlib.HARNESS, 'sys', 'names'], stdout=subprocess.PIPE, text=True).stdout.split()
    skipn = {'halt/0', 'halt/1', 'halt_error/0', 'halt_error/1', 'repl/0', 'repl/1', 'until/2', 'input/0', 'inputs/0'}
    sub = [pool[i] for i in (0, 3, 14, 18, 22, 28, 31, 40, 42, 49)]
    cases = []
    def add(na, inp, args, k):
        n, a = na.rsplit('/', 1)
        vs = [[f'a{i}', v] for i, v in enumerate(args)]
        call = n + ('(' + '; '.join('$' + x[0] for x in vs) + ')' if vs else '')
        cases.append({'id': f'{na}#{k}', 'text': f'limit(3; $i | {call})', 'vars': [['i', inp]] + vs, 'cap': 4})
    for na in names:
        if na in skipn:
            continue
        a = int(na.rsplit('/', 1)[1])
        if a == 0:
            for k, v in enumerate(pool):
                add(na, v, [], k)
        elif a == 1:
            combos = [(i, x) for i in pool for x in pool]
            if q:
                # all pairs of the same kind (most filters only work when input and argument fit), sampled for numbers, plus a random sample
                kind = lambda v: 'num' if v['t'] in ('int', 'big', 'flt', 'nz', 'fsp', 'dec') else v['t']
                same = [(i, x) for i, x in combos if kind(i) == kind(x)]
                nums = [c for c in same if kind(c[0]) == 'num']
                combos = [c for c in same if kind(c[0]) != 'num'] + rng.sample(nums, 150) + rng.sample(combos, 250)
            for k, (i, x) in enumerate(combos):
                add(na, i, [x], k)
        else:
            if q:
                for k in range(300):
                    add(na, rng.choice(pool), [rng.choice(pool) for _ in range(a)], k)
            else:
                import itertools
                combos = list(itertools.product(sub, repeat=a + 1)) if a == 2 else []
                combos += [tuple(rng.choice(pool) for _ in range(a + 1)) for _ in range(1500)]
                for k, c in enumerate(combos):
                    add(na, c[0], list(c[1:]), k)
    S = lambda t: {'t': 'str', 'c': [ord(c) for c in t]}
    pats = ['(?:(a)|(b))*', '(a)|(b)', '(a*)*', '\\b', '', '(', '[', '(?<n>a)(?<n2>b)?', '\\p{L}', '(?i)A', 'a|', '(.)(.)?', '$', '(?:)+']
    for f in ('test', 'match', 'capture', 'scan', 'split', 'splits', 'sub', 'gsub', 'matches'):
        for pi, pt in enumerate(pats):
            for fl in ('', 'g', 'gx', 'n', 'gi', 'z'):
                for ii, inp in enumerate(('ba', '', 'a\u00e4b', 'aXb\nab')):
                    call = {'sub': f'sub($p; "x"; $f)', 'gsub': 'gsub($p; "\\(.)"; $f)', 'split': 'split($p; $f)', 'matches': 'matches($p; $f)'}.get(f, f'{f}($p; $f)')
                    cases.append({'id': f'regex:{f}:{pi}:{fl}:{ii}', 'text': f'limit(6; $i | {call})', 'vars': [['i', S(inp)], ['p', S(pt)], ['f', S(fl)]], 'cap': 8})
    # the filters of the manual (they reach the documented corners of every built-in and decoder, e.g. nested YAML anchors)
    import corpus
    skipc = re.compile(r'\b(halt|halt_error|repl|input|inputs)\b')
    for e in corpus.examples():
        if not skipc.search(e['text']):
            cases.append({'id': 'manual:' + e['id'] + ':' + e['text'][:60], 'text': 'limit(20; ' + e['text'] + ')', 'vars': [], 'cap': 20})
    # structured documents that short token sequences do not reach
    ydocs = ['&a [&b 1, *b]', '&a [&b 1, *b, *a]', 'base: &base {name: &n foo}\nuse: *n\nall: *base', '[&b [&a [], *a], *b]', '&a {k: &b {k: &c [*c]}}', 'a: &x 1\nb: *x\n*x : 2', '&a [*a]', '- &a\n  - &b\n    - &c 1\n- *c\n- *b',
             '{<<: {a: 1}, b: 2}', '? &k [1]\n: &v {a: *k}\n', '--- &a 1\n--- *a', '!!set {a, b}', '!!omap [a: 1]', '[!!int 1, !!float 1, !!str 1, !!bool true, !!null ~, !!binary YQ==]', '&a &b 1', '*a', '&a', '- - - - - - - - 1',
             'a:\n  b:\n    c: &d\n      - *d']
    for k, d in enumerate(ydocs):
        cases.append({'id': f'yaml-doc:{d}', 'text': 'limit(6; $d | fromyaml) | (., tojson, toyaml)', 'vars': [['d', S(d)]], 'cap': 20})
    n_native = len(cases)
    size = 2 if q else 3
    for t in tlc_cases('texts', size):
        text = ''.join(chr(c) for c in t['text'])
        cases.append({'id': 'text:' + text, 'text': text, 'mode': 'diag'})
    n_text = len(cases) - n_native
    for fmt, dec in (('yaml', 'fromyaml'), ('xml', 'fromxml'), ('toml', 'fromtoml'), ('csv', 'fromcsv, fromtsv'), ('json', 'fromjson')):
        for d in tlc_cases(fmt, size):
            cases.append({'id': f'{fmt}:' + ''.join(chr(c) if c >= 0 else f'\\x{-c:02x}' for c in d['doc']), 'text': f'limit(6; $d | {dec}) | (., tojson, toyaml)', 'vars': [['d', {'t': 'str', 'c': d['doc']}]], 'cap': 20})
    # CBOR: byte sequences from heads x payloads
    heads = [0x00, 0x17, 0x18, 0x19, 0x1a, 0x1b, 0x1c, 0x1f, 0x20, 0x38, 0x3b, 0x40, 0x41, 0x5f, 0x60, 0x61, 0x7f, 0x80, 0x81, 0x9f, 0xa0, 0xa1, 0xbf, 0xc0, 0xc2, 0xc3, 0xc4, 0xd8, 0xe0, 0xf4, 0xf6, 0xf7, 0xf8, 0xf9, 0xfa, 0xfb, 0xff]
    tails = [[], [0], [0xff], [1, 2], [0x61, 0x61], [0xff, 0xff, 0xff, 0xff], [0x80], [0xf9, 0x7e, 0x00], [0x41, 0xff]]
    for h1 in heads:
        for h2 in ([None] + heads if not q else [None] + heads[::4]):
            for tl in tails:
                b = [h1] + ([h2] if h2 is not None else []) + tl
                cases.append({'id': 'cbor:' + bytes(b).hex(), 'text': 'limit(6; $d | fromcbor) | (., tojson)', 'vars': [['d', {'t': 'bytes', 'y': b}]], 'cap': 12})
    n_doc = len(cases) - n_native - n_text
    res = run_sys_cases(cases, 'C05', hang_s=4)
    by = {c['id']: c for c in cases}
    # the recorded ends are validated by TLC in chunks (one trace file per 100 000 records)
    ends_total = {}
    CH = 100000
    for ci in range(0, len(res), CH):
        tr = os.path.join(W, f'trace-C05-{ci // CH}.ndjson')
        with open(tr, 'w') as f:
            for r in res[ci:ci + CH]:
                end = r['end']
                end = 'halt' if end.startswith('{"c"') else 'does not compile' if end.startswith('does not compile') else end
                f.write(json.dumps({'id': r['id'], 'end': end, 'panic': r.get('panic', ''), 'status': r.get('status', 0), 'stderr': r.get('stderr', '')}) + '\n')
        tres = vlib.run_tlc('Trace_Total', 'SPECIFICATION Spec\nINVARIANTS Report\nCHECK_DEADLOCK FALSE\n', f'C05-trace-{ci // CH}', workers=1, timeout=7200, env_extra={'TRACE': tr}, xss='1g', heap='8g')
        chk.add_tlc(tres)
        summ = list(vlib.tagged_lines(tres['out'], 'RESULT'))
        if not summ:
            raise ToolError(f'Trace_Total did not consume the trace: {tres["out"]}')
        for k, v in json.loads(summ[0])['counts'].items():
            ends_total[k] = ends_total.get(k, 0) + v
        for l in vlib.tagged_lines(tres['out'], 'REJECTED'):
            r = json.loads(l)['rec']
            c = by.get(r['id'], {})
            vars_ = ' '.join(f"${n} = {json.dumps(v)[:80]}" for n, v in c.get('vars', []))
            where = (r.get('panic') or r.get('stderr') or '')[:200]
            # one finding per failing site: filter + panic message (argument values vary)
            site = re.sub(r'\d+', 'N', where)[:120]
            key = f"{r['id'].split('#')[0].split(':')[0] if r['id'].startswith(('yaml:', 'xml:', 'toml:', 'csv:', 'json:', 'cbor:', 'text:')) else r['id'].split('#')[0]}:{site}"
            chk.violation(key, f"{r['end']}: `{c.get('text', '?')}` with {vars_}: {where}", {'case': c, 'result': r})
    chk.evaluations += len(cases)
    chk.traces += len(cases)
    chk.nontrivial_rule = 'a case whose computation was started on the input and ended by itself (outputs, reported error, acceptance or rejection), i.e. not a hang, an exhaustion or a filter that does not compile'
    for r in res:
        if r['end'] not in ('hang', 'exhausted', 'died') and not str(r['end']).startswith('does not compile'):
            chk.nontrivial.add(r['id'])
    for k in range(0, len(res), max(1, len(res) // 6)):
        c = by.get(res[k]['id'], {})
        chk.sample({'filter': c.get('text'), 'vars': c.get('vars'), 'mode': c.get('mode', 'run'), 'end': res[k]['end']})
    chk.extra.update({'filters_discovered': len(names), 'native_cases': n_native, 'filter_texts': n_text, 'documents': n_doc, 'ends': ends_total})
    chk.assumptions += ['byte-level mutation of filter texts and documents is not done: texts and documents are all short sequences over a token alphabet per language (grammar-aware enumeration by TLC)',
                        'exhaustion of stack or memory and non-termination are outside the claim (recorded as "exhausted" / "hang")',
                        'the panic!() arms that rely on invariants of third-party parsers are reached only as far as these inputs reach them']


CHECKS = {'C05': check_C05, 'C06': check_C06, 'C19': check_C19, 'C04': check_C04, 'C14': check_C14, 'C16': check_C16, 'C20': check_C20, 'C07': check_C07, 'C13': check_C13, 'C12': check_C12, 'C17': check_C17, 'C18': check_C18, 'C15': check_C15, 'C09': check_C09, 'C08': check_C08, 'C11': check_C11, 'C10': check_C10, 'C01': check_C01, 'C02': check_C02, 'C03': check_C03}


def main():
    pid, tier = sys.argv[1], sys.argv[2]
    tier = os.environ.get('VERIF_TIER', tier) if tier not in ('quick', 'thorough') else tier
    chk = Check(pid, tier, level='exploration' if pid == 'C05' else 'model_checking')
    try:
        vlib.build_harness()
        CHECKS[pid](chk)
        rc = chk.finish()
    except ToolError as e:
        print(f'TOOL-ERROR {pid}: {e}', file=sys.stderr)
        sys.exit(2)
    except Exception:
        traceback.print_exc()
        sys.exit(2)
    sys.exit(rc)


if __name__ == '__main__':
    main()

#!/usr/bin/env python3
"""Regenerate MANIFEST.json from the table below (single source of truth for the registered checks)."""
import json, os
ROOT = os.path.dirname(os.path.dirname(os.path.abspath(__file__)))
ids = [json.loads(l)['id'] for l in open(os.path.join(ROOT, 'properties.jsonl'))]

CLAIMED = {
 'C01': dict(design='4/C01', technique='TLA+ definitional semantics (JaqSem) model-checked over enumerated program space with TLC; TLC-generated vectors replayed on the library; recorded runs validated by TLC (Trace_Sem)',
   text='TLC visits every well-scoped program of four families (binder nests, operand order, recursion contexts, compound path indices) up to a node bound x inputs; each state carries the stream the manual-derived semantics prescribes and is replayed on the real load->compile->run pipeline item by item; real runs of manual examples and seeded random programs are accepted or rejected by TLC against the same semantics. Small-scope exhaustive + random beyond: the right level for a for-all-programs claim whose oracle is a document.',
   note='JaqSem is a hand transcription of docs/*.dj; fuel-bounded (beyond fuel nothing is claimed); values without general floats; internal error messages compared by class only; harness printer and comparison code trusted'),
 'C02': dict(design='4/C02', technique='TLA+ path/update tables of the manual (JaqSem Ev/Upd) checked with TLC incl. invariant getpath(path(p)) = p; vectors replayed; recorded runs validated by TLC',
   text='TLC enumerates all path expressions of the family up to the node bound x three input trees x twelve observation modes (path, getpath.path, path_value, |= with 0/1/2 outputs/error, =, +=, //=, del) and checks getpath(path(p)) = p on the specification; every state is replayed on the real code; random deeper path expressions x random trees are validated as traces.',
   note='same trusted base as C01; order of object keys after a deleting update is compared as a map (left open by the manual)'),
 'C03': dict(design='4/C03', technique='TLA+ definitional semantics with prefix-cutting stream operators, model-checked over producer/consumer programs with bombs by TLC; vectors replayed by pulling exactly the specified prefix from the real iterator',
   text='TLC enumerates all small producer programs with bombs (error, build-time and pull-time divergence, infinite generators) under every prefix consumer, in value and in path mode; where the specification gives a definite prefix the real iterator is pulled exactly that far and must deliver it without error, hang or crash.',
   note='input-consuming bombs are covered at CLI level (C17); hang detection by timeout; same trusted base as C01'),
 'C10': dict(design='4/C10', technique='TLA+ position model (JaqValues Index/Slice/Has, JaqSem IterUpd/IndexUpd/SliceUpd) enumerated exhaustively over containers x positions x operations by TLC with consistency invariants; every state replayed on the library',
   text='Exhaustive over all arrays/text strings (1-4 byte characters and an invalid byte)/byte strings up to the size bound, small objects with arbitrary keys, all positions and bounds in -5..5 and null, wrongly typed positions, and update filters with 0/1/2 outputs, wrong kind or error; the model is checked for internal consistency by TLC and each case is replayed on the real code.',
   note='big-integer positions are in C09; object key order after deletion left open; same trusted base as C01'),
 'C11': dict(design='4/C11', technique='each defining equation of the manual is a TLC invariant lhs = rhs over enumerated argument streams, counts and inputs; both sides replayed on the library',
   text='TLC instantiates every documented equation (limit/skip, first, last, nth, isempty, any/all, add, select, error, reduce/foreach expansions, range/1,2,3 = while definition, repeat, recurse, while, until, empty) with all small argument streams containing errors, empties and multiplicities and counts around 0 and the stream length, proves lhs = rhs on the specification and replays both sides on the real code.',
   note='counts beyond 2^31 are in C09; same trusted base as C01'),
 'C08': dict(design='4/C08', technique='TLA+ model of the documented order and of an implementation-shaped hash function; TLC checks order axioms and hash/equality coherence on all pairs and triples of atoms; vectors for 15 operations replayed on the library',
   text='TLC proves on the specification, for all pairs and triples of ~48 atoms covering every number representation, string kind, arrays and objects with different insertion order: trichotomy, antisymmetry, transitivity, uniqueness of the stable sort, and that values that are equal fall in the same class of a model of jaq-json`s Hash impl; every pair x 15 lookup/sort/merge operations and every triple x 4 sorts is replayed on the real code.',
   note='NaN and integers beyond 2^53 vs floats are excluded by the property itself; floats restricted to exactly representable ones; hash model is a hand transcription of impl Hash for Num/Val'),
 'C09': dict(design='4/C09', technique='TLA+ BigNat (school arithmetic on digit sequences) + operator tables of the manual in JaqValues; TLC enumerates boundary operand pairs, kind pairs and integer consumers; vectors replayed on the library',
   text='Expected results for integer arithmetic at every machine/big boundary are computed by TLC with an explicit arbitrary-precision arithmetic written in TLA+; the manual`s operator rules for all kind pairs and the representation independence of 16 integer consumers are enumerated exhaustively over the suites and replayed on the real code.',
   note='general IEEE-754 results are outside the specification (only exact small dyadic values, signed zero, NaN, infinities); same trusted base as C01'),
 'C15': dict(design='4/C15', technique='TLA+ declarative grammar (JaqParse: precedence/associativity table as a minimal-parenthesis renderer) enumerated by TLC over operator pairs/triples and operand constructs; token sequences with trivia variants parsed by the real parser and compared structurally; shorthands validated as traces against the semantics of their expansions',
   text='For every ordered pair and triple of operators in every grouping and every prefix/postfix/binder construct in operand position, TLC renders the tree with minimal, redundant and full parentheses from the documented table; the real parser must return exactly the tree for each rendering under six trivia variants (whitespace, newlines, comments, backslash continuation, CRLF). Documented shorthands are run on the real code and TLC checks the outputs against the semantics of their expansions; ill-formed texts must be rejected.',
   note='the renderer is the specification of the table (TLC checks it is balanced and minimal); the list of ill-formed texts is hand-written; harness normalisation of sugar (missing else, elif, {a}, {$x}, f?) is trusted'),
 'C18': dict(design='4/C18', technique='TLA+ state machine JaqInPlace (one action per file-system call, Kill and Fail actions) model-checked exhaustively by TLC; strace logs of the real binary under every kill point and injected call failure validated action-by-action by TLC (Trace_InPlace), final file system compared with the specified state',
   text='Design: every interleaving of the replace protocol with a crash or a failing call at every step, for 1-3 files and all success/failure patterns, satisfies atomicity, only-after-success, ordering, clean termination and the permission window. Code: ~480 (quick) traced runs of the real binary - each scenario x SIGKILL before every n-th call of every file-system call type x error returns of open/write/stat/rename/chmod - are accepted by the specification event by event, and the bytes, modes and left-over files found afterwards equal the specified file system.',
   note='strace is the observation boundary (complete for file-system effects short of io_uring); kill = SIGKILL at syscall entry; no power-failure/fsync model'),
 'C17': dict(design='4/C17', technique='TLA+ state machine JaqCli (main loop, shared input cursor, writer, exit status) explored exhaustively by TLC with history invariants; every terminated behaviour of the state graph replayed on the real binary at process level; option tables (MC_CliIO with the TLA+ writer JaqCodec) replayed byte for byte',
   text='TLC explores all interleavings of main-loop pulls and input/inputs pulls over two files of up to MaxItems items (values or unparsable text), all scripts of the effect vocabulary, with/without -n and -e, checking exactly-once in-order consumption, that only consumed well-formed values are written, and the exit status table; each of the ~11 000 terminated behaviours (plus stdin variants and stdout/stderr interleaving) is run on the real binary. Output option subsets and raw-input modes are enumerated by TLC with expected bytes from the TLA+ writer.',
   note='filters restricted to the model`s effect scripts; --arg family, -f, colours not modelled; process-level observation only'),
 'C12': dict(design='4/C12', technique='constructive TLA+ definitions of the collection built-ins (JaqSem NativeColl, JaqLib) evaluated by TLC over enumerated inputs x operations; vectors replayed on the library',
   text='TLC enumerates 25 inputs with duplicates, ties, mixed types, empties and non-string keys x about 100 operations and key filters with 0-2 outputs; the expectation of each case is computed from definitions transcribed from the manual (stable sort, maximal runs, first of run, set-valued ties for min_by/max_by/bsearch) and replayed on the real code; documented equations are part of the operation set.',
   note='regex-based filters excluded; same trusted base as C01'),
 'C20': dict(design='4/C20', technique='TLA+ calendar specification (JaqTime): successor relation on civil dates model-checked by TLC against the closed forms over every day of a 400-year cycle (thorough: years -9999..9999); TLC-generated vectors for gmtime/mktime/todate/fromdate/strftime/strptime over edge Unix times, broken-down arrays and ISO texts replayed on the library; recorded runs on random Unix times validated by TLC (Trace_Time)',
   text='Design: TLC walks every day of the range with the leap rule only and checks, in each state, the closed-form day-number conversions, year/week-day laws and the Unix-time split/join; so the specification of gmtime/mktime is itself model-checked. Code: every edge time x every conversion chain of the property is one TLC state carrying the prescribed array / text / error and is replayed on the real filters; ranges are three-valued (must / may / must-not) so that the library`s narrower limits in years +-9999 raise no alarm; random times go the other way (real run -> TLC accepts or rejects).',
   note='local time zones and strftime directives beyond the modelled formats are outside; fractional times restricted to what a double holds exactly to the microsecond; Python datetime used as a second opinion only'),
 'C07': dict(design='4/C07', technique='TLA+ writer function (JaqCodec W/TextOf/NumText/EscT/EscB with layout options) evaluated by TLC over all short strings of a structural alphabet, all number representations and small trees x layout options; TLC vectors replayed on tojson/fromjson and on the CLI writer/reader; independent RFC 8259 text generator with Python json as second reader (exploration)',
   text='TLC enumerates every text string up to length 2 (quick) / 3 (thorough) over 31 structurally significant characters and bytes, every number representation and nested containers with arbitrary keys; each state carries the text the specified writer produces and the value reading it back must give; replayed on tojson, tojson|fromjson, object keys, byte strings, tostring, and through `jaq <layout options> .` piped to `jaq -c .` at process level for every indentation/compact/tab option. RFC 8259 conformance of the reader is explored with seeded random texts against an independent parser.',
   note='shortest-round-trip float printing is outside the specification (dyadic floats only); Python json trusted as independent reader; the RFC part is sampling, not TLC-decided'),
 'C13': dict(design='4/C13', technique='TLA+ encoders and decoders (JaqCodec Base64/PercentEnc/HtmlEnc/Sh/Csv/Tsv, HtmlDec/PercentDec/Base64Dec) evaluated by TLC over all short strings of a metacharacter alphabet and token strings; vectors replayed on the library; in-language invariants for regex positions; real consumers (/bin/sh, Python csv/json/html/urllib/base64) fed with jaq output',
   text='TLC enumerates every string up to length 2 over 31 metacharacters, multi-byte characters and invalid bytes, token strings that look like encoder output, malformed Base64 and percent escapes, rows of scalars; each state carries the specified encoding and the decoded original; replayed on the real filters alone and inside format strings. Position properties (match offsets, splits reassembly, slices) are checked as in-language invariants on every string x 7 regexes. Real consumers recover the data from @sh/@csv/@json/@html/@uri/@base64 output for all pairs of metacharacters and random longer strings.',
   note='regular-expression language itself not modelled; no independent TSV reader; consumers are the ones installed here (dash, CPython modules)'),
}

checks = []
for pid, c in CLAIMED.items():
    checks.append({
        'property_id': pid,
        'quick_cmd': f'python3 tools/vcheck.py {pid} quick',
        'thorough_cmd': f'python3 tools/vcheck.py {pid} thorough',
        'evidence_file': f'evidence/{pid}.json',
        'replay_cmd_template': 'python3 tools/replay_one.py {path}',
        'engine': 'jaqsem',
        'level_claimed': {'category': 'model_checking', 'text': c['text'], 'design_ref': c['design']},
        'level_note': c['note'],
        'technique': c['technique'],
    })

m = {
 'version': 1,
 'setup_cmd': 'python3 tools/setup.py',
 'hooks': {'guard': 'jaq_verif', 'enable': "rustflags --cfg jaq_verif (set in /verif/harness/.cargo/config.toml); no hook is needed so far",
           'baseline_off_cmd': 'cd /repo && cargo test --workspace --no-fail-fast --offline', 'source_commits': [], 'add_only': True},
 'engines': [{'name': 'jaqsem', 'path': 'spec/ + harness/ + tools/vcheck.py', 'serves_properties': sorted(CLAIMED),
              'kind_free_text': 'explicit TLA+ specification (JaqValues, JaqSem, JaqLib, JaqGen, MC_Sem, Trace_Sem) checked with TLC; Rust harness replays TLC vectors on /repo and records traces that TLC validates'}],
 'checks': checks,
 'not_applicable': [{'property_id': i, 'reason': 'check under construction in this session (see DESIGN.md section 4 for the plan); not claimed yet'} for i in ids if i not in CLAIMED],
 'notes': 'see DESIGN.md; known_findings.txt lists repaired defects (fix: commits in /repo) and open findings',
}
json.dump(m, open(os.path.join(ROOT, 'MANIFEST.json'), 'w'), indent=1)
print('claimed', sorted(CLAIMED))

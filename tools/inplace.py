#!/usr/bin/env python3
"""C18 driver: run the real `jaq --in-place` under strace (plain, with injected call failures, with SIGKILL at every
call), turn the system-call log into events of JaqInPlace and snapshot the file system afterwards."""
import json, os, re, shutil, subprocess, stat, sys

TRACE_CALLS = 'openat,open,creat,write,pwrite64,writev,statx,stat,lstat,newfstatat,rename,renameat,renameat2,chmod,fchmod,fchmodat,' \
              'unlink,unlinkat,exit_group,ftruncate,truncate,link,linkat,symlink,symlinkat,copy_file_range,sendfile,mkdir,mkdirat'


class Scenario:
    def __init__(self, name, files, filt, opts=(), subdir=False, absolute=False):
        self.name, self.files, self.filt, self.opts, self.subdir, self.absolute = name, files, filt, list(opts), subdir, absolute


def scenarios(tier):
    S = []
    f644, f444, f600, f664 = 0o644, 0o444, 0o600, 0o664
    S.append(Scenario('one-ok', [('a.json', b'1 2 3\n', f644)], '.+1'))
    S.append(Scenario('one-bigger', [('a.json', b'3\n', f664)], '[range(.; 40)]'))
    S.append(Scenario('one-smaller', [('a.json', b'[1,2,3,4,5,6,7,8,9]\n', f600)], 'empty'))
    S.append(Scenario('one-filter-err', [('a.json', b'1 2 3\n', f644)], 'if . == 2 then error("x") else . end'))
    S.append(Scenario('one-parse-err', [('a.json', b'1 2 ]\n', f644)], '.'))
    S.append(Scenario('readonly', [('a.json', b'1\n', f444)], '.+1'))
    S.append(Scenario('two-ok', [('a.json', b'1\n', f644), ('b.json', b'2 3\n', f600)], '.*2'))
    S.append(Scenario('two-second-fails', [('a.json', b'1\n', f644), ('b.json', b'2 oops\n', f644)], '.'))
    S.append(Scenario('two-first-fails', [('a.json', b'"x"\n', f644), ('b.json', b'2\n', f444)], '.+1'))
    S.append(Scenario('three-middle-fails', [('a.json', b'1\n', f664), ('b.json', b'null 5\n', f644), ('c.json', b'3\n', f600)],
                      'if . == null then error else . end'))
    S.append(Scenario('subdir-relative', [('d/a.json', b'[1,2]\n', f644)], '.[]', subdir=True))
    S.append(Scenario('absolute', [('a.json', b'{"a":1}\n', f644)], '.a', absolute=True))
    S.append(Scenario('halt', [('a.json', b'1 2\n', f644), ('b.json', b'3\n', f644)], 'if . == 2 then halt_error(7) else . end'))
    S.append(Scenario('compact-sort', [('a.json', b'{"b":1,"a":[1,2]}\n', f644)], '.', opts=['-c', '-S']))
    if tier != 'quick':
        S.append(Scenario('three-ok', [('a.json', b'1\n', f644), ('b.json', b'2\n', f444), ('c.json', b'3 4\n', f600)], '., .'))
        S.append(Scenario('yaml-out', [('a.json', b'{"a":[1,2]}\n', f644)], '.', opts=['--to', 'yaml']))
        S.append(Scenario('large', [('a.json', b'1\n', f644)], '[range(20000)]'))
    return S


def setup(dirpath, sc):
    shutil.rmtree(dirpath, ignore_errors=True)
    os.makedirs(dirpath)
    paths = []
    for name, content, mode in sc.files:
        p = os.path.join(dirpath, name)
        os.makedirs(os.path.dirname(p), exist_ok=True)
        open(p, 'wb').write(content)
        os.chmod(p, mode)
        paths.append(p)
    return paths


def args_for(sc, dirpath):
    return [os.path.join(dirpath, n) if sc.absolute else n for n, _, _ in sc.files]


def expected(jaq, sc, dirpath):
    """per file: the bytes the same invocation without --in-place prints, or None if it fails"""
    out = []
    setup(dirpath, sc)
    for a in args_for(sc, dirpath):
        r = subprocess.run([jaq] + sc.opts + [sc.filt, a], cwd=dirpath, stdout=subprocess.PIPE, stderr=subprocess.DEVNULL)
        out.append(r.stdout if r.returncode == 0 else None)
    return out


def run_traced(jaq, sc, dirpath, inject=None, timeout=60):
    setup(dirpath, sc)
    log = os.path.join(os.path.dirname(dirpath), 'strace.log')
    cmd = ['strace', '-f', '-o', log, '-e', 'trace=' + TRACE_CALLS]
    if inject:
        cmd += ['-e', 'inject=' + inject]
    cmd += [jaq, '-i'] + sc.opts + [sc.filt] + args_for(sc, dirpath)
    r = subprocess.run(cmd, cwd=dirpath, stdout=subprocess.PIPE, stderr=subprocess.PIPE, timeout=timeout)
    return r.returncode, open(log, errors='replace').read()


def parse_trace(text, sc, dirpath, exp):
    """system-call log -> events"""
    names = {}
    for i, (n, _, mode) in enumerate(sc.files):
        names[os.path.normpath(os.path.join(dirpath, n))] = i + 1
    def fidx(p):
        ap = os.path.normpath(p if os.path.isabs(p) else os.path.join(dirpath, p))
        return names.get(ap)
    def is_tmp(p):
        return os.path.basename(p).startswith('jaq') and fidx(p) is None and os.path.normpath(os.path.dirname(p if os.path.isabs(p) else os.path.join(dirpath, p))).startswith(dirpath)
    events = []
    tmpfd = None
    started = False
    counts = {}
    for line in text.splitlines():
        m = re.match(r'^\d+\s+(\w+)\((.*)$', line)
        if not m:
            if 'killed by SIGKILL' in line:
                events.append({'ev': 'Killed'})
            continue
        call, rest = m.group(1), m.group(2)
        counts[call] = counts.get(call, 0) + 1
        if '<unfinished' in line or line.rstrip().endswith('= ?') and call != 'exit_group':
            continue
        failed = re.search(r'=\s+-1\s+(E\w+)', line) is not None
        strs = re.findall(r'"((?:[^"\\]|\\.)*)"', rest)
        if call in ('openat', 'open', 'creat'):
            if not strs:
                continue
            p = strs[0]
            i = fidx(p)
            ret = re.search(r'=\s+(-?\d+)', line)
            fd = int(ret.group(1)) if ret else -1
            if i is not None:
                started = True
                if 'O_WRONLY' in rest or 'O_RDWR' in rest or 'O_TRUNC' in rest or 'O_CREAT' in rest:
                    events.append({'ev': 'Other', 'what': f'input file opened for writing: {line.strip()[:120]}'})
                elif failed:
                    events.append({'ev': 'Fail', 'call': 'open'})
                else:
                    events.append({'ev': 'Open', 'f': i})
            elif is_tmp(p) and 'O_CREAT' in rest:
                if failed:
                    events.append({'ev': 'Fail', 'call': 'mktemp'})
                else:
                    tmpfd = fd
                    events.append({'ev': 'MkTemp'})
            continue
        if not started:
            continue
        if call in ('write', 'pwrite64', 'writev'):
            fdm = re.match(r'(\d+),', rest)
            if fdm and tmpfd is not None and int(fdm.group(1)) == tmpfd:
                events.append({'ev': 'Fail', 'call': 'write'} if failed else {'ev': 'Write'})
            continue
        if call in ('statx', 'stat', 'lstat', 'newfstatat'):
            if strs and fidx(strs[0]) is not None:
                events.append({'ev': 'Fail', 'call': 'stat'} if failed else {'ev': 'Stat'})
            continue
        if call in ('rename', 'renameat', 'renameat2'):
            if len(strs) >= 2 and is_tmp(strs[0]) and fidx(strs[1]) is not None:
                if failed:
                    events.append({'ev': 'Fail', 'call': 'rename'})
                else:
                    events.append({'ev': 'Rename', 'f': fidx(strs[1])})
                    tmpfd = None
            else:
                events.append({'ev': 'Other', 'what': line.strip()[:120]})
            continue
        if call in ('chmod', 'fchmodat'):
            if strs and fidx(strs[0]) is not None:
                i = fidx(strs[0])
                mm = re.search(r',\s*0?([0-7]{3,6})\)?', rest)
                mode = int(mm.group(1), 8) & 0o7777 if mm else -1
                if failed:
                    events.append({'ev': 'Fail', 'call': 'chmod'})
                else:
                    events.append({'ev': 'Chmod', 'f': i, 'mode_ok': mode == sc.files[i - 1][2]})
            continue
        if call in ('unlink', 'unlinkat'):
            if strs and is_tmp(strs[-1] if call == 'unlink' else strs[0]):
                events.append({'ev': 'Unlink'})
            elif strs and fidx(strs[0]) is not None:
                events.append({'ev': 'Other', 'what': line.strip()[:120]})
            continue
        if call == 'exit_group':
            c = re.match(r'(\d+)', rest)
            events.append({'ev': 'Exit', 'code': int(c.group(1)) if c else -1})
            continue
        if call in ('ftruncate', 'truncate', 'link', 'linkat', 'symlink', 'symlinkat', 'copy_file_range', 'sendfile', 'fchmod', 'mkdir', 'mkdirat'):
            events.append({'ev': 'Other', 'what': line.strip()[:120]})
    return events, counts


def snapshot(sc, dirpath, exp):
    files = []
    for (n, content, mode), e in zip(sc.files, exp):
        p = os.path.join(dirpath, n)
        try:
            b = open(p, 'rb').read()
            m = stat.S_IMODE(os.stat(p).st_mode)
        except OSError:
            files.append({'c': 'missing', 'm': 'missing'})
            continue
        c = 'orig' if b == content else ('new' if e is not None and b == e else 'other')
        # content equal to both (filter is the identity): call it whatever the mode / order suggests is irrelevant -> "same"
        if b == content and e is not None and b == e:
            c = 'same'
        files.append({'c': c, 'm': 'orig' if m == mode else ('tmp' if m == 0o600 else 'other')})
    left = 0
    for root, _, fnames in os.walk(dirpath):
        left += sum(1 for f in fnames if f.startswith('jaq'))
    return files, left


def exit_code_fix(events, rc):
    """halt_error etc. exit through process::exit: the code in exit_group is what counts"""
    return events


def record(jaq, sc, workdir, inject=None):
    d = os.path.join(workdir, 'fs')
    exp = expected(jaq, sc, d)
    try:
        rc, text = run_traced(jaq, sc, d, inject)
    except subprocess.TimeoutExpired:
        return None
    events, counts = parse_trace(text, sc, d, exp)
    files, left = snapshot(sc, d, exp)
    header = {'ev': 'Header', 'nf': len(sc.files), 'outc': ['ok' if e is not None else 'err' for e in exp],
              'scenario': sc.name, 'inject': inject or ''}
    # the specification's exit codes: 0, 2 (I/O), 5 (filter / parse error); a `halt` code counts as an error outcome
    for e in events:
        if e['ev'] == 'Exit' and e['code'] not in (0, 2, 5):
            e['code'] = 5
    # identity filters: "same" content is compatible with both orig and new -> resolved against the events
    renamed = {e['f'] for e in events if e['ev'] == 'Rename'}
    for i, f in enumerate(files):
        if f['c'] == 'same':
            f['c'] = 'new' if (i + 1) in renamed else 'orig'
        # a mode equal to both (original mode is 0600)
        if sc.files[i][2] == 0o600 and f['m'] in ('orig', 'tmp'):
            chmodded = any(e['ev'] == 'Chmod' and e['f'] == i + 1 for e in events)
            f['m'] = 'tmp' if ((i + 1) in renamed and not chmodded) else 'orig'
    post = {'ev': 'Post', 'files': files, 'tmp': left}
    return [header] + events + [post], counts


if __name__ == '__main__':
    jaq = sys.argv[1]
    for sc in scenarios('quick')[:3]:
        tr, counts = record(jaq, sc, '/tmp/ipw')
        for e in tr:
            print(json.dumps(e))
        print(counts)

#!/bin/bash
# try_seed.sh <seed dir> <property> [tier] : apply a seeded change to /repo, run a check, undo it straight afterwards
SEED=$1; PID=$2; TIER=${3:-quick}
cd /repo || exit 2
git diff --quiet || { echo "/repo is not clean"; exit 2; }
git apply "$SEED/patch.diff" || exit 2
# the run below rewrites evidence/$PID.json from the seeded tree: keep the one of the unchanged tree
cp /verif/evidence/$PID.json /verif/work/evidence-keep-$PID.json 2>/dev/null
cd /verif && python3 tools/vcheck.py $PID $TIER > work/seedrun-$(basename $SEED)-$PID.log 2>&1
RC=$?
git -C /repo checkout -- .
cp /verif/work/evidence-keep-$PID.json /verif/evidence/$PID.json 2>/dev/null
echo "$(basename $SEED) $PID $TIER rc=$RC $(grep -c '^VIOLATION' work/seedrun-$(basename $SEED)-$PID.log) violations"
grep -A1 '^VIOLATION' work/seedrun-$(basename $SEED)-$PID.log | grep -v '^VIOLATION\|^--' | head -3 | cut -c1-250

#!/usr/bin/env python3
"""setup: build the harness and the jaq binary from /repo (offline)."""
import subprocess, sys, os
root = os.path.dirname(os.path.dirname(os.path.abspath(__file__)))
sys.path.insert(0, os.path.join(root, 'tools'))
import vlib
vlib.build_all()
print("setup ok")

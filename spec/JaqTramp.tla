------------------------------ MODULE JaqTramp ------------------------------
(***************************************************************************)
(* The trampoline of jaq-core/src/stack.rs and filter.rs (def_run) as a    *)
(* state machine (property C04, mechanism).  A definition called with      *)
(* CatchOne / CatchAll runs on an explicit stack of suspended output       *)
(* iterators; a thrown tail call is an ITEM of a stream, whose callee body *)
(* is pushed; an iterator is pushed back after an item only if it may have *)
(* more items.  Invariant: for loop bodies of the tail-recursive shapes    *)
(* the stack never holds more than two iterators, whatever the number of   *)
(* iterations.                                                             *)
(***************************************************************************)
EXTENDS Integers, Sequences

\* an iterator: [items |-> remaining items, forced |-> is its remainder known exactly]
\* an item: [k |-> "out"] or [k |-> "tc", it |-> the iterator of the callee's body]
Out == [k |-> "out"]
Tc(it) == [k |-> "tc", it |-> it]
RECURSIVE BodyPipe(_), BodyComma(_), BodyAlt(_)
\* def f: if c then step | f else . end
BodyPipe(n) == [items |-> IF n = 0 THEN << Out >> ELSE << Tc(BodyPipe(n - 1)) >>, forced |-> TRUE]
\* def f: ., (step | f)      (recurse, repeat, while): the right operand of `,` is computed lazily
BodyComma(n) == [items |-> IF n = 0 THEN << Out >> ELSE << Out, Tc(BodyComma(n - 1)) >>, forced |-> n = 0]
\* def f: (c | empty) // (step | f)
BodyAlt(n) == [items |-> IF n = 0 THEN << Out >> ELSE << Tc(BodyAlt(n - 1)) >>, forced |-> n = 0]

\* "after": the rule of Stack::next (ask the iterator after taking the item); "before": a control - decide before taking it
CONSTANT Discipline
VARIABLES stack, emitted, maxlen, shape, total
tvars == << stack, emitted, maxlen, shape, total >>
BodyOf(s, n) == CASE s = "pipe" -> BodyPipe(n) [] s = "comma" -> BodyComma(n) [] s = "alt" -> BodyAlt(n)
TrampInit(maxn) == /\ shape \in {"pipe", "comma", "alt"} /\ total \in 0..maxn
                   /\ stack = << BodyOf(shape, total) >> /\ emitted = 0 /\ maxlen = 1
MayHaveMore(it) == it.items # <<>> \/ ~it.forced
\* one round of Stack::next
TrampStep ==
  /\ stack # <<>>
  /\ LET top == stack[Len(stack)] rest == SubSeq(stack, 1, Len(stack) - 1) IN
     IF top.items = <<>> THEN stack' = rest /\ UNCHANGED << emitted, maxlen >>
     ELSE LET item == Head(top.items)
              \* taking an item of the lazily computed part forces it: from then on the remainder is known
              after == [items |-> Tail(top.items), forced |-> top.forced \/ item.k = "tc"]
              known1 == top.forced /\ Len(top.items) = 1          \* known beforehand to hold exactly one item
              kept == IF (Discipline = "after" /\ MayHaveMore(after)) \/ (Discipline = "before" /\ ~known1) THEN Append(rest, after) ELSE rest
          IN /\ stack' = (IF item.k = "tc" THEN Append(kept, item.it) ELSE kept)
             /\ emitted' = emitted + (IF item.k = "out" THEN 1 ELSE 0)
             /\ maxlen' = IF Len(stack') > maxlen THEN Len(stack') ELSE maxlen
  /\ UNCHANGED << shape, total >>
\* the suspended iterators never pile up
StackBounded == Len(stack) <= 2
\* everything is produced: one output per iteration for the comma shape, one at the end otherwise
AllProduced == stack = <<>> => emitted = (IF shape = "comma" THEN total + 1 ELSE 1)
=============================================================================

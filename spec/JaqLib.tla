----------------------------- MODULE JaqLib -----------------------------
(***************************************************************************)
(* The named filters of the manual (docs/stdlib.dj) that are defined there *)
(* by an equation, written as syntax trees and put, together with the      *)
(* natively specified ones (JaqSem!Native), into the initial environment.     *)
(* Order matters: a definition sees the bindings before it and itself.     *)
(***************************************************************************)
EXTENDS JaqSem

\* ---- syntax tree constructors (the interchange encoding of DESIGN 2.2) ----
TId            == [k |-> "id"]
TRec           == [k |-> "recurse"]
TNum(n)        == [k |-> "num", n |-> n]
TBig(neg, d)   == [k |-> "bignum", neg |-> neg, d |-> d]
TStr(c)        == [k |-> "str", parts |-> << [p |-> "s", c |-> c] >>]
TArr(f)        == [k |-> "arr", f |-> f]
TArr0          == [k |-> "arr"]
TObj(es)       == [k |-> "obj", es |-> es]
TE(key, val)   == [key |-> key, val |-> val]
TBin(op, l, r) == [k |-> "bin", op |-> op, l |-> l, r |-> r]
TPipe(l, r)    == TBin("|", l, r)
TComma(l, r)   == TBin(",", l, r)
TAs(l, x, r)   == [k |-> "as", l |-> l, pat |-> [p |-> "var", x |-> x], r |-> r]
TAsP(l, pat, r) == [k |-> "as", l |-> l, pat |-> pat, r |-> r]
TVar(x)        == [k |-> "var", x |-> x]
TIf(c, t, e)   == [k |-> "if", c |-> c, t |-> t, e |-> e]
TTry(f, c)     == [k |-> "try", f |-> f, c |-> c]
TCall(f, args) == [k |-> "call", f |-> f, args |-> args]
TC0(f)         == TCall(f, <<>>)
TC1(f, a)      == TCall(f, << a >>)
TC2(f, a, b)   == TCall(f, << a, b >>)
TDefs(defs, r) == [k |-> "def", defs |-> defs, r |-> r]
TDef(name, params, body) == [name |-> name, params |-> params, body |-> body]
PF(n)          == [n |-> n, var |-> FALSE]
PVv(n)         == [n |-> n, var |-> TRUE]
TReduce(xs, x, init, upd) ==
  [k |-> "fold", name |-> "reduce", xs |-> xs, pat |-> [p |-> "var", x |-> x], init |-> init, upd |-> upd]
TForeach(xs, x, init, upd) ==
  [k |-> "fold", name |-> "foreach", xs |-> xs, pat |-> [p |-> "var", x |-> x], init |-> init, upd |-> upd]
TLabel(x, f)   == [k |-> "label", x |-> x, f |-> f]
TBreak(x)      == [k |-> "break", x |-> x]
TNeg(f)        == [k |-> "neg", f |-> f]
PIdx(i)        == [p |-> "idx", i |-> i, opt |-> FALSE]
PIdxO(i)       == [p |-> "idx", i |-> i, opt |-> TRUE]
PIter          == [p |-> "rng", hi |-> FALSE, hj |-> FALSE, opt |-> FALSE]
PIterO         == [p |-> "rng", hi |-> FALSE, hj |-> FALSE, opt |-> TRUE]
PRng(i, j)     == [p |-> "rng", hi |-> TRUE, i |-> i, hj |-> TRUE, j |-> j, opt |-> FALSE]
PFrom(i)       == [p |-> "rng", hi |-> TRUE, i |-> i, hj |-> FALSE, opt |-> FALSE]
PUpto(j)       == [p |-> "rng", hi |-> FALSE, hj |-> TRUE, j |-> j, opt |-> FALSE]
TPath(l, parts) == [k |-> "path", l |-> l, parts |-> parts]
TKey(s)        == TPath(TId, << PIdx(TStr(Ascii(s))) >>)      \* .key
TIter          == TPath(TId, << PIter >>)                     \* .[]
TIterO         == TPath(TId, << PIterO >>)                    \* .[]?
TAt(i)         == TPath(TId, << PIdx(i) >>)                   \* .[i]

Natives == <<
  NatB("empty", 0), NatB("error", 0), NatB("error", 1), NatB("!ierr", 0),
  NatB("true", 0), NatB("false", 0), NatB("null", 0), NatB("not", 0),
  NatB("first", 1), NatB("last", 1), NatB("limit", 2), NatB("skip", 2),
  NatB("range", 3), NatB("path", 1), NatB("path_value", 1), NatB("getpath", 1),
  NatB("keys_unsorted", 0), NatB("key_values", 0), NatB("length", 0), NatB("has", 1),
  NatB("tojson", 0), NatB("tostring", 0), NatB("@text", 0), NatB("@json", 0),
  NatB("sort_by", 1), NatB("group_by", 1), NatB("unique_by", 1), NatB("min_by", 1), NatB("max_by", 1),
  NatB("contains", 1), NatB("indices", 1), NatB("bsearch", 1), NatB("transpose", 0),
  NatB("startswith", 1), NatB("endswith", 1), NatB("ltrimstr", 1), NatB("rtrimstr", 1),
  NatB("explode", 0), NatB("implode", 0), NatB("ascii_downcase", 0), NatB("ascii_upcase", 0), NatB("utf8bytelength", 0),
  NatB("floor", 0), NatB("round", 0), NatB("ceil", 0),
  NatB("isnan", 0), NatB("isinfinite", 0), NatB("isfinite", 0), NatB("isnormal", 0),
  NatB("trim", 0), NatB("ltrim", 0), NatB("rtrim", 0), NatB("tonumber", 0), NatB("toboolean", 0),
  NatB("first", 0), NatB("last", 0), NatB("sort", 0), NatB("reverse", 0), NatB("tobytes", 0), NatB("isempty", 1)
>>

Defs == <<
  \* select(p): its input for each true output of p
  TDef("select", << PF("f") >>, TIf(TC0("f"), TId, TC0("empty"))),
  \* recurse(f) == ., (f | recurse(f))
  TDef("recurse", << PF("f") >>,
       TDefs(<< TDef("rec", <<>>, TComma(TId, TPipe(TC0("f"), TC0("rec")))) >>, TC0("rec"))),
  \* recurse == recurse(.[]?)
  TDef("recurse", <<>>, TC1("recurse", TIterO)),
  \* recurse(f; p) == recurse(f | select(p))
  TDef("recurse", << PF("f"), PF("p") >>, TC1("recurse", TPipe(TC0("f"), TC1("select", TC0("p"))))),
  \* repeat(f): the outputs of f over and over again
  TDef("repeat", << PF("f") >>,
       TDefs(<< TDef("rec", <<>>, TComma(TC0("f"), TC0("rec"))) >>, TC0("rec"))),
  \* while(p; f): yields its input and applies f to it, while p returns true
  TDef("while", << PF("p"), PF("f") >>,
       TDefs(<< TDef("rec", <<>>, TIf(TC0("p"), TComma(TId, TPipe(TC0("f"), TC0("rec"))), TC0("empty"))) >>, TC0("rec"))),
  \* until(p; f): applies f until p returns true, then returns its input
  TDef("until", << PF("p"), PF("f") >>,
       TDefs(<< TDef("rec", <<>>, TIf(TC0("p"), TId, TPipe(TC0("f"), TC0("rec")))) >>, TC0("rec"))),
  \* range($from; $upto) == range($from; $upto; 1);  range($upto) == range(0; $upto)
  TDef("range", << PVv("from"), PVv("upto") >>, TCall("range", << TVar("from"), TVar("upto"), TNum(1) >>)),
  TDef("range", << PVv("upto") >>, TCall("range", << TNum(0), TVar("upto"), TNum(1) >>)),
  \* paths == skip(1; path(..))
  TDef("paths", <<>>, TC2("skip", TNum(1), TC1("path", TRec))),
  \* paths(p) == paths as $path | if getpath($path) | p then $path else empty end
  TDef("paths", << PF("p") >>,
       TAs(TC0("paths"), "path",
           TIf(TPipe(TC1("getpath", TVar("path")), TC0("p")), TVar("path"), TC0("empty")))),
  \* setpath($path; $v) == getpath($path) = $v
  TDef("setpath", << PVv("path"), PVv("v") >>, TBin("=", TC1("getpath", TVar("path")), TVar("v"))),
  \* del(f) == f |= empty
  TDef("del", << PF("f") >>, TBin("|=", TC0("f"), TC0("empty"))),
  \* delpaths($paths): deletes all corresponding values in the order given by the array
  TDef("delpaths", << PVv("paths") >>,
       TReduce(TPath(TVar("paths"), << PIter >>), "path", TId, TC1("del", TC1("getpath", TVar("path"))))),
  \* map(f) == [.[] | f];  map_values(f) == .[] |= f;  walk(f) == .. |= f
  TDef("map", << PF("f") >>, TArr(TPipe(TIter, TC0("f")))),
  TDef("map_values", << PF("f") >>, TBin("|=", TIter, TC0("f"))),
  TDef("walk", << PF("f") >>, TBin("|=", TRec, TC0("f"))),
  \* nth($i) == .[$i]
  TDef("nth", << PVv("i") >>, TAt(TVar("i"))),
  \* nth($i; f): the $i-th output of f
  TDef("nth", << PVv("i"), PF("f") >>, TC1("first", TC2("skip", TVar("i"), TC0("f")))),
  \* add(f) == reduce f as $x (null; . + $x);  add == add(.[])
  TDef("add", << PF("f") >>, TReduce(TC0("f"), "x", TC0("null"), TBin("+", TId, TVar("x")))),
  TDef("add", <<>>, TC1("add", TIter)),
  \* any(f; p): true iff some output of f | p is true;  all(f; p): iff all are
  TDef("any", << PF("f"), PF("p") >>,
       TPipe(TC1("isempty", TC1("first", TPipe(TPipe(TC0("f"), TC0("p")), TC1("select", TId)))), TC0("not"))),
  TDef("all", << PF("f"), PF("p") >>,
       TC1("isempty", TC1("first", TPipe(TPipe(TC0("f"), TC0("p")), TC1("select", TC0("not")))))),
  TDef("any", << PF("p") >>, TC2("any", TIter, TC0("p"))),
  TDef("all", << PF("p") >>, TC2("all", TIter, TC0("p"))),
  TDef("any", <<>>, TC1("any", TId)),
  TDef("all", <<>>, TC1("all", TId)),
  \* to_entries: array of {key: k, value: v} such that .[k] yields v
  TDef("to_entries", <<>>,
       TArr(TAsP(TPath(TC0("key_values"), << PIter >>),
                 [p |-> "arr", ps |-> << [p |-> "var", x |-> "key"], [p |-> "var", x |-> "value"] >>],
                 TObj(<< TE(TStr(Ascii("key")), TVar("key")), TE(TStr(Ascii("value")), TVar("value")) >>)))),
  \* from_entries: the object with these entries
  TDef("from_entries", <<>>,
       TReduce(TPipe(TIter, TObj(<< TE(TKey("key"), TKey("value")) >>)), "x", TObj(<<>>), TBin("+", TId, TVar("x")))),
  \* with_entries(f) == to_entries | map(f) | from_entries
  TDef("with_entries", << PF("f") >>, TPipe(TC0("to_entries"), TPipe(TC1("map", TC0("f")), TC0("from_entries")))),
  \* keys == keys_unsorted | sort
  TDef("keys", <<>>, TPipe(TC0("keys_unsorted"), TC0("sort"))),
  \* type tests and selections
  TDef("isboolean", <<>>, TBin("or", TBin("==", TId, TC0("true")), TBin("==", TId, TC0("false")))),
  TDef("isnumber", <<>>, TBin("and", TBin(">", TId, TC0("true")), TBin("<", TId, TStr(<<>>)))),
  TDef("isstring", <<>>, TBin("and", TBin(">=", TId, TStr(<<>>)), TBin("<", TId, TArr0))),
  TDef("isarray", <<>>, TBin("and", TBin(">=", TId, TArr0), TBin("<", TId, TObj(<<>>)))),
  TDef("isobject", <<>>, TBin(">=", TId, TObj(<<>>))),
  TDef("values", <<>>, TC1("select", TBin("!=", TId, TC0("null")))),
  TDef("nulls", <<>>, TC1("select", TBin("==", TId, TC0("null")))),
  TDef("booleans", <<>>, TC1("select", TC0("isboolean"))),
  TDef("numbers", <<>>, TC1("select", TC0("isnumber"))),
  TDef("strings", <<>>, TC1("select", TC0("isstring"))),
  TDef("arrays", <<>>, TC1("select", TC0("isarray"))),
  TDef("objects", <<>>, TC1("select", TC0("isobject"))),
  \* nan == 0 / 0, infinite == 1 / 0; finites / normals select by isfinite / isnormal
  TDef("nan", <<>>, TBin("/", TNum(0), TNum(0))),
  TDef("infinite", <<>>, TBin("/", TNum(1), TNum(0))),
  TDef("finites", <<>>, TC1("select", TC0("isfinite"))),
  TDef("normals", <<>>, TC1("select", TC0("isnormal"))),
  TDef("iterables", <<>>, TC1("select", TBin(">=", TId, TArr0))),
  TDef("scalars", <<>>, TC1("select", TBin("<", TId, TArr0))),
  TDef("type", <<>>,
       TIf(TBin("==", TId, TC0("null")), TStr(Ascii("null")),
       TIf(TC0("isboolean"), TStr(Ascii("boolean")),
       TIf(TC0("isnumber"), TStr(Ascii("number")),
       TIf(TC0("isstring"), TStr(Ascii("string")),
       TIf(TC0("isarray"), TStr(Ascii("array")), TStr(Ascii("object")))))))),
  \* abs: the absolute value
  TDef("abs", <<>>, TIf(TBin("<", TId, TNum(0)), TNeg(TId), TId)),
  \* unique == unique_by(.), min == min_by(.), max == max_by(.)
  TDef("unique", <<>>, TC1("unique_by", TId)),
  TDef("min", <<>>, TC1("min_by", TId)),
  TDef("max", <<>>, TC1("max_by", TId)),
  \* index($x) == indices($x) | first;  rindex likewise with last  (.[0] / .[-1]: null when there is none)
  TDef("index", << PVv("x") >>, TPipe(TC1("indices", TVar("x")), TAt(TNum(0)))),
  TDef("rindex", << PVv("x") >>, TPipe(TC1("indices", TVar("x")), TAt(TNeg(TNum(1))))),
  \* inside($x) == . as $i | $x | contains($i)
  TDef("inside", << PF("xs") >>, TAs(TId, "i", TPipe(TC0("xs"), TC1("contains", TVar("i"))))),
  \* flatten (manual's definition via flattens)
  TDef("flattens", <<>>, TIf(TC0("isarray"), TPipe(TIter, TC0("flattens")), TId)),
  TDef("flattens", << PVv("d") >>,
       TIf(TBin("and", TC0("isarray"), TBin(">=", TVar("d"), TNum(0))), TPipe(TIter, TC1("flattens", TBin("-", TVar("d"), TNum(1)))), TId)),
  TDef("flatten", <<>>, TArr(TC0("flattens"))),
  TDef("flatten", << PVv("d") >>, TArr(TC1("flattens", TVar("d")))),
  \* combinations == .[][] |= [.] | reduce .[] as $a ([]; . + $a[])
  TDef("combinations", <<>>,
       TPipe(TBin("|=", TPath(TId, << PIter, PIter >>), TArr(TId)),
             TReduce(TIter, "a", TArr0, TBin("+", TId, TPath(TVar("a"), << PIter >>))))),
  TDef("combinations", << PVv("n") >>, TPipe(TArr(TC2("limit", TVar("n"), TC1("repeat", TId))), TC0("combinations"))),
  \* split($s) == . / $s if both are strings, else it fails
  TDef("split", << PVv("s") >>,
       TIf(TBin("and", TC0("isstring"), TPipe(TVar("s"), TC0("isstring"))), TBin("/", TId, TVar("s")), TC0("!ierr"))),
  \* join($s): "" if empty, otherwise "\(x1)" + $s + ... + $s + "\(xn)"
  TDef("join", << PVv("s") >>,
       TIf(TBin("==", TId, TArr0), TStr(<<>>),
           TReduce(TPath(TId, << PFrom(TNum(1)) , PIter >>), "x", TPipe(TAt(TNum(0)), TC0("tostring")),
                   TBin("+", TBin("+", TId, TVar("s")), TPipe(TVar("x"), TC0("tostring")))))),
  \* pick(f): the object that contains only the parts of the input that f returns; pick(f, g) == pick(f) * pick(g):
  \* the product over the paths of f of the singleton objects {p1: {p2: ... value}}
  TDef("pick", << PF("f") >>,
       [k |-> "fold", name |-> "reduce", xs |-> TC1("path_value", TC0("f")),
        pat |-> [p |-> "arr", ps |-> << [p |-> "var", x |-> "path"], [p |-> "var", x |-> "value"] >>],
        init |-> TObj(<<>>),
        upd |-> TBin("*", TId, TReduce(TPath(TPipe(TVar("path"), TC0("reverse")), << PIter >>), "p", TVar("value"), TObj(<< TE(TVar("p"), TId) >>)))]),
  \* in($x) / inside are flipped has / contains
  TDef("in", << PF("xs") >>, TAs(TId, "x", TPipe(TC0("xs"), TC1("has", TVar("x")))))
>>

Prelude == Natives \o [i \in 1..Len(Defs) |-> DefB(Defs[i])]

Fuel == 9

RunProgF(t, v, fuel) == Vals(Ev("run", t, Prelude, Pv0(v), 0, fuel))
RunProg(t, v)   == RunProgF(t, v, Fuel)
PathsProg(t, v) == PathsOf(Ev("paths", t, Prelude, Pv0(v), 0, Fuel))
\* with bound variables (for global variables / test harness bindings)
RunProgV(t, vars, v) ==
  Vals(Ev("run", t, Prelude \o [i \in 1..Len(vars) |-> VarB(vars[i][1], vars[i][2])], Pv0(v), 0, Fuel))
=============================================================================

------------------------------ MODULE Trace_Sys ------------------------------
(***************************************************************************)
(* Trace validation for C06: system-call logs (strace -f) of the harness   *)
(* driver and of the real binary, cut into scenarios, one event per line:  *)
(*   {"ev":"header","id":..,"tz":bool}     a new process                   *)
(*   {"ev":"marker","m":"exec"|"case","tz":bool,"id":..}                   *)
(*   {"ev":"open","cls":..,"w":bool,"path":..}                             *)
(*   {"ev":"bad","what":"net"|"proc"|"fsmod","call":..}                    *)
(*   {"ev":"exit"}                                                         *)
(* Every event must be an enabled action of JaqSys; one that is not is     *)
(* reported with the scenario / case at hand and skipped.                  *)
(***************************************************************************)
EXTENDS Integers, Sequences, TLC, Json, IOUtils

Rec == ndJsonDeserialize(IOEnv.TRACE)
VARIABLES l, rejected, phase, tzok, reads, scen, case
M == INSTANCE JaqSys

Ev == Rec[l]
Init == l = 1 /\ rejected = 0 /\ M!SysInit(FALSE) /\ scen = "" /\ case = ""
Reject == /\ rejected' = rejected + 1 /\ PrintT(<< "REJECTED", ToJson([line |-> l, ev |-> Ev, scenario |-> scen, case |-> case, phase |-> phase]) >>)
          /\ UNCHANGED << phase, tzok, reads, scen, case >>
Next ==
  /\ l <= Len(Rec) /\ l' = l + 1
  /\ CASE Ev.ev = "header" -> phase' = "startup" /\ tzok' = Ev.tz /\ reads' = 0 /\ scen' = Ev.id /\ case' = "" /\ UNCHANGED rejected
       [] Ev.ev = "marker" -> (IF Ev.m = "load" THEN (IF phase = "startup" THEN M!BeginLoad ELSE UNCHANGED << phase, tzok, reads >>) ELSE M!BeginExec(Ev.tz))
                              /\ case' = Ev.id /\ UNCHANGED << rejected, scen >>
       [] Ev.ev = "open" -> IF ~Ev.w /\ Ev.cls # "other" /\ ENABLED M!OpenRead(Ev.cls) THEN M!OpenRead(Ev.cls) /\ UNCHANGED << rejected, scen, case >> ELSE Reject
       [] Ev.ev = "bad" -> Reject
       [] Ev.ev = "exit" -> M!Exit /\ UNCHANGED << rejected, scen, case >>
Spec == Init /\ [][Next]_<< l, rejected, phase, tzok, reads, scen, case >>
TypeOK == M!TypeOK
Consumed == l = Len(Rec) + 1
Report == Consumed => PrintT(<< "RESULT", Len(Rec), rejected >>)
=============================================================================

SPECIFICATION Spec
INVARIANT Atomic
INVARIANT OnlyAfterSuccess
INVARIANT InOrder
INVARIANT Terminated
INVARIANT ModeWindow
INVARIANT Report
CHECK_DEADLOCK FALSE

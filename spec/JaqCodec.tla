----------------------------- MODULE JaqCodec -----------------------------
(***************************************************************************)
(* The XJON/JSON writer (manual: docs/formats.dj "XJON", docs/cli.dj       *)
(* output options) as a function from values and layout options to text.   *)
(* Text is a sequence of code points in which a negative number -b is the  *)
(* raw byte b (bytes of a text string that are not valid UTF-8 are written *)
(* as they are).                                                           *)
(*   pp = [has |-> indentation on?, ind |-> one level of indentation,      *)
(*         sort |-> sort keys?, sep |-> space after ':' (and after ',' on  *)
(*         one line)]                                                      *)
(***************************************************************************)
EXTENDS JaqLib

Hx(d) == IF d < 10 THEN 48 + d ELSE 87 + d

\* one character of a text string inside "..."
EscT(c) ==
  CASE c = 34 -> << 92, 34 >>
    [] c = 92 -> << 92, 92 >>
    [] c = 8  -> << 92, 98 >>
    [] c = 12 -> << 92, 102 >>
    [] c = 10 -> << 92, 110 >>
    [] c = 13 -> << 92, 114 >>
    [] c = 9  -> << 92, 116 >>
    [] (c >= 0 /\ c < 32) \/ c = 127 -> << 92, 117, 48, 48, Hx(c \div 16), Hx(c % 16) >>
    [] OTHER -> << c >>            \* every other character and every invalid byte: as it is

\* one byte of a byte string inside b"..."
EscB(b) ==
  CASE b = 34 -> << 92, 34 >>
    [] b = 92 -> << 92, 92 >>
    [] b = 8  -> << 92, 98 >>
    [] b = 12 -> << 92, 102 >>
    [] b = 10 -> << 92, 110 >>
    [] b = 13 -> << 92, 114 >>
    [] b = 9  -> << 92, 116 >>
    [] b < 32 \/ b >= 127 -> << 92, 120, Hx(b \div 16), Hx(b % 16) >>
    [] OTHER -> << b >>

RECURSIVE MapCat(_, _)
MapCat(s, k) == IF s = <<>> THEN <<>> ELSE (IF k = "t" THEN EscT(Head(s)) ELSE EscB(Head(s))) \o MapCat(Tail(s), k)

\* fraction digits of r/q (0 <= r < q, q a power of two): terminates
RECURSIVE FracDigits(_, _)
FracDigits(r, q) == IF r = 0 THEN <<>> ELSE << 48 + ((r * 10) \div q) >> \o FracDigits((r * 10) % q, q)

FloatText(p, q) ==
  LET a == Abs(p)
      ip == a \div q
      fr == FracDigits(a % q, q)
  IN (IF p < 0 THEN << 45 >> ELSE <<>>) \o IntText(ip) \o << 46 >> \o (IF fr = <<>> THEN << 48 >> ELSE fr)

NumText(v) ==
  CASE v.t = "int" -> IntText(v.n)
    [] v.t = "big" -> (IF v.neg /\ Strip(v.d) # <<>> THEN << 45 >> ELSE <<>>) \o (IF Strip(v.d) = <<>> THEN << 48 >> ELSE [i \in 1..Len(Strip(v.d)) |-> 48 + Strip(v.d)[i]])
    [] v.t = "flt" -> FloatText(v.p, v.q)
    [] v.t = "nz" -> << 45, 48, 46, 48 >>
    [] v.t = "dec" -> v.ds
    [] v.t = "fsp" -> CASE v.k = "nan" -> << 78, 97, 78 >>
                        [] v.k = "inf" -> << 73, 110, 102, 105, 110, 105, 116, 121 >>
                        [] v.k = "ninf" -> << 45, 73, 110, 102, 105, 110, 105, 116, 121 >>

RECURSIVE RepInd(_, _)
RepInd(ind, n) == IF n = 0 THEN <<>> ELSE ind \o RepInd(ind, n - 1)

RECURSIVE W(_, _, _), WSeq(_, _, _, _, _)

\* items: sequence of already chosen elements; kv: are they key/value pairs
WSeq(items, kv, pp, level, i) ==
  IF i > Len(items) THEN <<>>
  ELSE (IF pp.has THEN RepInd(pp.ind, level + 1) ELSE <<>>)
       \o (IF kv THEN W(items[i][1], pp, level + 1) \o << 58 >> \o (IF pp.sep THEN << 32 >> ELSE <<>>) \o W(items[i][2], pp, level + 1)
           ELSE W(items[i], pp, level + 1))
       \o (IF i < Len(items) THEN << 44 >> \o (IF pp.sep /\ ~pp.has THEN << 32 >> ELSE <<>>) ELSE <<>>)
       \o (IF pp.has THEN << 10 >> ELSE <<>>)
       \o WSeq(items, kv, pp, level, i + 1)

W(v, pp, level) ==
  CASE v.t = "null" -> << 110, 117, 108, 108 >>
    [] v.t = "bool" -> IF v.b THEN << 116, 114, 117, 101 >> ELSE << 102, 97, 108, 115, 101 >>
    [] IsNum(v) -> NumText(v)
    [] v.t = "str" -> << 34 >> \o MapCat(v.c, "t") \o << 34 >>
    [] v.t = "bytes" -> << 98, 34 >> \o MapCat(v.y, "b") \o << 34 >>
    [] v.t = "arr" ->
         IF v.a = <<>> THEN << 91, 93 >>
         ELSE << 91 >> \o (IF pp.has THEN << 10 >> ELSE <<>>) \o WSeq(v.a, FALSE, pp, level, 1) \o (IF pp.has THEN RepInd(pp.ind, level) ELSE <<>>) \o << 93 >>
    [] v.t = "obj" ->
         IF v.o = <<>> THEN << 123, 125 >>
         ELSE << 123 >> \o (IF pp.has THEN << 10 >> ELSE <<>>) \o WSeq(IF pp.sort THEN SortKV(v.o) ELSE v.o, TRUE, pp, level, 1)
              \o (IF pp.has THEN RepInd(pp.ind, level) ELSE <<>>) \o << 125 >>

Compact == [has |-> FALSE, ind |-> <<>>, sort |-> FALSE, sep |-> FALSE]
\* the text `tojson` / `tostring` / string interpolation produce
TextOf(v) == W(v, Compact, 0)

\* can the writer's output be given as a specified value (no opaque parts)?
RECURSIVE Writable(_)
Writable(v) ==
  CASE v.t \in {"ierr", "fx", "oneof"} -> FALSE
    [] v.t = "arr" -> \A i \in 1..Len(v.a) : Writable(v.a[i])
    [] v.t = "obj" -> ~(v.uo /\ Len(v.o) > 1) /\ \A i \in 1..Len(v.o) : Writable(v.o[i][1]) /\ Writable(v.o[i][2])
    [] OTHER -> TRUE
=============================================================================

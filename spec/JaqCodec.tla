----------------------------- MODULE JaqCodec -----------------------------
(***************************************************************************)
(* The XJON/JSON writer (manual: docs/formats.dj "XJON", docs/cli.dj       *)
(* output options) as a function from values and layout options to text.   *)
(* Text is a sequence of code points in which a negative number -b is the  *)
(* raw byte b (bytes of a text string that are not valid UTF-8 are written *)
(* as they are).                                                           *)
(*   pp = [has |-> indentation on?, ind |-> one level of indentation,      *)
(*         sort |-> sort keys?, sep |-> space after ':' (and after ',' on  *)
(*         one line)]                                                      *)
(***************************************************************************)
EXTENDS JaqLib

Hx(d) == IF d < 10 THEN 48 + d ELSE 87 + d

\* one character of a text string inside "..."
EscT(c) ==
  CASE c = 34 -> << 92, 34 >>
    [] c = 92 -> << 92, 92 >>
    [] c = 8  -> << 92, 98 >>
    [] c = 12 -> << 92, 102 >>
    [] c = 10 -> << 92, 110 >>
    [] c = 13 -> << 92, 114 >>
    [] c = 9  -> << 92, 116 >>
    [] (c >= 0 /\ c < 32) \/ c = 127 -> << 92, 117, 48, 48, Hx(c \div 16), Hx(c % 16) >>
    [] OTHER -> << c >>            \* every other character and every invalid byte: as it is

\* one byte of a byte string inside b"..."
EscB(b) ==
  CASE b = 34 -> << 92, 34 >>
    [] b = 92 -> << 92, 92 >>
    [] b = 8  -> << 92, 98 >>
    [] b = 12 -> << 92, 102 >>
    [] b = 10 -> << 92, 110 >>
    [] b = 13 -> << 92, 114 >>
    [] b = 9  -> << 92, 116 >>
    [] b < 32 \/ b >= 127 -> << 92, 120, Hx(b \div 16), Hx(b % 16) >>
    [] OTHER -> << b >>

RECURSIVE MapCat(_, _)
MapCat(s, k) == IF s = <<>> THEN <<>> ELSE (IF k = "t" THEN EscT(Head(s)) ELSE EscB(Head(s))) \o MapCat(Tail(s), k)

\* fraction digits of r/q (0 <= r < q, q a power of two): terminates
RECURSIVE FracDigits(_, _)
FracDigits(r, q) == IF r = 0 THEN <<>> ELSE << 48 + ((r * 10) \div q) >> \o FracDigits((r * 10) % q, q)

FloatText(p, q) ==
  LET a == Abs(p)
      ip == a \div q
      fr == FracDigits(a % q, q)
  IN (IF p < 0 THEN << 45 >> ELSE <<>>) \o IntText(ip) \o << 46 >> \o (IF fr = <<>> THEN << 48 >> ELSE fr)

NumText(v) ==
  CASE v.t = "int" -> IntText(v.n)
    [] v.t = "big" -> (IF v.neg /\ Strip(v.d) # <<>> THEN << 45 >> ELSE <<>>) \o (IF Strip(v.d) = <<>> THEN << 48 >> ELSE [i \in 1..Len(Strip(v.d)) |-> 48 + Strip(v.d)[i]])
    [] v.t = "flt" -> FloatText(v.p, v.q)
    [] v.t = "nz" -> << 45, 48, 46, 48 >>
    [] v.t = "dec" -> v.ds
    [] v.t = "fsp" -> CASE v.k = "nan" -> << 78, 97, 78 >>
                        [] v.k = "inf" -> << 73, 110, 102, 105, 110, 105, 116, 121 >>
                        [] v.k = "ninf" -> << 45, 73, 110, 102, 105, 110, 105, 116, 121 >>

RECURSIVE RepInd(_, _)
RepInd(ind, n) == IF n = 0 THEN <<>> ELSE ind \o RepInd(ind, n - 1)

RECURSIVE W(_, _, _), WSeq(_, _, _, _, _)

\* items: sequence of already chosen elements; kv: are they key/value pairs
WSeq(items, kv, pp, level, i) ==
  IF i > Len(items) THEN <<>>
  ELSE (IF pp.has THEN RepInd(pp.ind, level + 1) ELSE <<>>)
       \o (IF kv THEN W(items[i][1], pp, level + 1) \o << 58 >> \o (IF pp.sep THEN << 32 >> ELSE <<>>) \o W(items[i][2], pp, level + 1)
           ELSE W(items[i], pp, level + 1))
       \o (IF i < Len(items) THEN << 44 >> \o (IF pp.sep /\ ~pp.has THEN << 32 >> ELSE <<>>) ELSE <<>>)
       \o (IF pp.has THEN << 10 >> ELSE <<>>)
       \o WSeq(items, kv, pp, level, i + 1)

W(v, pp, level) ==
  CASE v.t = "null" -> << 110, 117, 108, 108 >>
    [] v.t = "bool" -> IF v.b THEN << 116, 114, 117, 101 >> ELSE << 102, 97, 108, 115, 101 >>
    [] IsNum(v) -> NumText(v)
    [] v.t = "str" -> << 34 >> \o MapCat(v.c, "t") \o << 34 >>
    [] v.t = "bytes" -> << 98, 34 >> \o MapCat(v.y, "b") \o << 34 >>
    [] v.t = "arr" ->
         IF v.a = <<>> THEN << 91, 93 >>
         ELSE << 91 >> \o (IF pp.has THEN << 10 >> ELSE <<>>) \o WSeq(v.a, FALSE, pp, level, 1) \o (IF pp.has THEN RepInd(pp.ind, level) ELSE <<>>) \o << 93 >>
    [] v.t = "obj" ->
         IF v.o = <<>> THEN << 123, 125 >>
         ELSE << 123 >> \o (IF pp.has THEN << 10 >> ELSE <<>>) \o WSeq(IF pp.sort THEN SortKV(v.o) ELSE v.o, TRUE, pp, level, 1)
              \o (IF pp.has THEN RepInd(pp.ind, level) ELSE <<>>) \o << 125 >>

Compact == [has |-> FALSE, ind |-> <<>>, sort |-> FALSE, sep |-> FALSE]
\* the text `tojson` / `tostring` / string interpolation produce
TextOf(v) == W(v, Compact, 0)

\* can the writer's output be given as a specified value (no opaque parts)?
RECURSIVE Writable(_)
Writable(v) ==
  CASE v.t \in {"ierr", "fx", "oneof"} -> FALSE
    [] v.t = "arr" -> \A i \in 1..Len(v.a) : Writable(v.a[i])
    [] v.t = "obj" -> ~(v.uo /\ Len(v.o) > 1) /\ \A i \in 1..Len(v.o) : Writable(v.o[i][1]) /\ Writable(v.o[i][2])
    [] OTHER -> TRUE
-----------------------------------------------------------------------------
(* string formatters (manual, stdlib "Text string formatting", "fromcsv/tocsv", "fromtsv/totsv") *)

\* Base64 of a byte sequence (standard alphabet, padded)
B64Char(n) == IF n < 26 THEN 65 + n ELSE IF n < 52 THEN 97 + (n - 26) ELSE IF n < 62 THEN 48 + (n - 52) ELSE IF n = 62 THEN 43 ELSE 47
RECURSIVE Base64(_)
Base64(b) ==
  IF b = <<>> THEN <<>>
  ELSE IF Len(b) = 1 THEN << B64Char(b[1] \div 4), B64Char((b[1] % 4) * 16), 61, 61 >>
  ELSE IF Len(b) = 2 THEN << B64Char(b[1] \div 4), B64Char((b[1] % 4) * 16 + b[2] \div 16), B64Char((b[2] % 16) * 4), 61 >>
  ELSE << B64Char(b[1] \div 4), B64Char((b[1] % 4) * 16 + b[2] \div 16), B64Char((b[2] % 16) * 4 + b[3] \div 64), B64Char(b[3] % 64) >>
       \o Base64(SubSeq(b, 4, Len(b)))

\* percent-encoding of a byte sequence: unreserved characters stay
Unreserved(b) == (b >= 65 /\ b <= 90) \/ (b >= 97 /\ b <= 122) \/ (b >= 48 /\ b <= 57) \/ b \in {45, 95, 46, 126}
HxU(d) == IF d < 10 THEN 48 + d ELSE 55 + d
RECURSIVE PercentEnc(_)
PercentEnc(b) == IF b = <<>> THEN <<>> ELSE (IF Unreserved(Head(b)) THEN << Head(b) >> ELSE << 37, HxU(Head(b) \div 16), HxU(Head(b) % 16) >>) \o PercentEnc(Tail(b))

\* the five HTML entities
HtmlOne(c) ==
  CASE c = 60 -> << 38, 108, 116, 59 >> [] c = 62 -> << 38, 103, 116, 59 >> [] c = 38 -> << 38, 97, 109, 112, 59 >>
    [] c = 39 -> << 38, 97, 112, 111, 115, 59 >> [] c = 34 -> << 38, 113, 117, 111, 116, 59 >> [] OTHER -> << c >>
RECURSIVE HtmlEnc(_)
HtmlEnc(cs) == IF cs = <<>> THEN <<>> ELSE HtmlOne(Head(cs)) \o HtmlEnc(Tail(cs))

\* @sh of a scalar
RECURSIVE ShQuote(_)
ShQuote(cs) == IF cs = <<>> THEN <<>> ELSE (IF Head(cs) = 39 THEN << 39, 92, 39, 39 >> ELSE << Head(cs) >>) \o ShQuote(Tail(cs))
ShScalar(v) == IF v.t = "str" THEN << 39 >> \o ShQuote(v.c) \o << 39 >> ELSE TextOf(v)
IsScalar(v) == v.t \in {"null", "bool", "str"} \/ IsNum(v)
RECURSIVE JoinWith(_, _)
JoinWith(parts, sep) == IF parts = <<>> THEN <<>> ELSE IF Len(parts) = 1 THEN parts[1] ELSE parts[1] \o sep \o JoinWith(Tail(parts), sep)
\* result: code points, or <<-1000>> for "fails"
ShFail == << -1000 >>
Sh(v) == IF IsScalar(v) THEN ShScalar(v)
         ELSE IF v.t = "arr" /\ \A i \in 1..Len(v.a) : IsScalar(v.a[i]) THEN JoinWith([i \in 1..Len(v.a) |-> ShScalar(v.a[i])], << 32 >>)
         ELSE ShFail

\* tocsv / totsv of a row of scalars
RECURSIVE Dbl(_)
Dbl(cs) == IF cs = <<>> THEN <<>> ELSE (IF Head(cs) = 34 THEN << 34, 34 >> ELSE << Head(cs) >>) \o Dbl(Tail(cs))
CsvField(v) == IF v.t = "null" THEN <<>> ELSE IF v.t = "str" THEN << 34 >> \o Dbl(v.c) \o << 34 >> ELSE TextOf(v)
RECURSIVE TsvEsc(_)
TsvEsc(cs) == IF cs = <<>> THEN <<>>
              ELSE (CASE Head(cs) = 10 -> << 92, 110 >> [] Head(cs) = 13 -> << 92, 114 >> [] Head(cs) = 9 -> << 92, 116 >>
                      [] Head(cs) = 92 -> << 92, 92 >> [] Head(cs) = 0 -> << 92, 48 >> [] OTHER -> << Head(cs) >>) \o TsvEsc(Tail(cs))
TsvField(v) == IF v.t = "null" THEN <<>> ELSE IF v.t = "str" THEN TsvEsc(v.c) ELSE TextOf(v)
Csv(v) == IF v.t = "arr" /\ \A i \in 1..Len(v.a) : IsScalar(v.a[i]) THEN JoinWith([i \in 1..Len(v.a) |-> CsvField(v.a[i])], << 44 >>) ELSE ShFail
Tsv(v) == IF v.t = "arr" /\ \A i \in 1..Len(v.a) : IsScalar(v.a[i]) THEN JoinWith([i \in 1..Len(v.a) |-> TsvField(v.a[i])], << 9 >>) ELSE ShFail

\* decoders ---------------------------------------------------------------
\* @htmld: one pass from the left, the five entities
HtmlEnts == << << << 38, 108, 116, 59 >>, 60 >>, << << 38, 103, 116, 59 >>, 62 >>, << << 38, 97, 109, 112, 59 >>, 38 >>,
               << << 38, 97, 112, 111, 115, 59 >>, 39 >>, << << 38, 113, 117, 111, 116, 59 >>, 34 >> >>
IsPrefixOf(p, s) == Len(p) <= Len(s) /\ SubSeq(s, 1, Len(p)) = p
RECURSIVE HtmlDec(_)
HtmlDec(cs) ==
  IF cs = <<>> THEN <<>>
  ELSE LET hit == {i \in 1..5 : IsPrefixOf(HtmlEnts[i][1], cs)} IN
       IF hit = {} THEN << Head(cs) >> \o HtmlDec(Tail(cs))
       ELSE LET i == CHOOSE i \in hit : TRUE IN << HtmlEnts[i][2] >> \o HtmlDec(SubSeq(cs, Len(HtmlEnts[i][1]) + 1, Len(cs)))

\* Base64 decoding of a sequence of (ASCII) characters.  Result: [k |-> "ok", y |-> bytes] for canonical input,
\* [k |-> "bad"] for input that is not Base64 at all (foreign character, padding inside, impossible length), and
\* [k |-> "lax", y |-> bytes] for input whose data is determined but whose padding / trailing bits are not canonical
\* (a decoder may accept or reject these; it must not drop data)
B64Val(c) == IF c >= 65 /\ c <= 90 THEN c - 65 ELSE IF c >= 97 /\ c <= 122 THEN c - 71 ELSE IF c >= 48 /\ c <= 57 THEN c + 4 ELSE IF c = 43 THEN 62 ELSE IF c = 47 THEN 63 ELSE -1
RECURSIVE B64Body(_)
B64Body(d) ==   \* d: sequence of 6-bit values, Len(d) % 4 # 1
  IF d = <<>> THEN <<>>
  ELSE IF Len(d) = 2 THEN << d[1] * 4 + d[2] \div 16 >>
  ELSE IF Len(d) = 3 THEN << d[1] * 4 + d[2] \div 16, (d[2] % 16) * 16 + d[3] \div 4 >>
  ELSE << d[1] * 4 + d[2] \div 16, (d[2] % 16) * 16 + d[3] \div 4, (d[3] % 4) * 64 + d[4] >> \o B64Body(SubSeq(d, 5, Len(d)))
Base64Dec(cs) ==
  LET n == Len(cs)
      pads == IF n >= 2 /\ cs[n] = 61 /\ cs[n - 1] = 61 THEN 2 ELSE IF n >= 1 /\ cs[n] = 61 THEN 1 ELSE 0
      body == SubSeq(cs, 1, n - pads)
      d == [i \in 1..Len(body) |-> B64Val(body[i])]
      m == Len(body) % 4
  IN IF \E i \in 1..Len(d) : d[i] = -1 THEN [k |-> "bad"]
     ELSE IF m = 1 THEN [k |-> "bad"]
     ELSE LET y == B64Body(d)
              spare == IF m = 2 THEN d[Len(d)] % 16 ELSE IF m = 3 THEN d[Len(d)] % 4 ELSE 0
              canon == spare = 0 /\ ((m = 0 /\ pads = 0) \/ (m = 2 /\ pads = 2) \/ (m = 3 /\ pads = 1))
          IN [k |-> IF canon THEN "ok" ELSE "lax", y |-> y]

\* percent-decoding of a byte sequence; a % that is not followed by two hexadecimal digits is not an escape
HexVal(b) == IF b >= 48 /\ b <= 57 THEN b - 48 ELSE IF b >= 65 /\ b <= 70 THEN b - 55 ELSE IF b >= 97 /\ b <= 102 THEN b - 87 ELSE -1
RECURSIVE PercentDec(_)
\* [wf |-> every % starts an escape, y |-> bytes with the well-formed escapes decoded and everything else kept]
PercentDec(b) ==
  IF b = <<>> THEN [wf |-> TRUE, y |-> <<>>]
  ELSE IF Head(b) = 37
       THEN IF Len(b) >= 3 /\ HexVal(b[2]) >= 0 /\ HexVal(b[3]) >= 0
            THEN LET r == PercentDec(SubSeq(b, 4, Len(b))) IN [wf |-> r.wf, y |-> << HexVal(b[2]) * 16 + HexVal(b[3]) >> \o r.y]
            ELSE LET r == PercentDec(Tail(b)) IN [wf |-> FALSE, y |-> << 37 >> \o r.y]
       ELSE LET r == PercentDec(Tail(b)) IN [wf |-> r.wf, y |-> << Head(b) >> \o r.y]
=============================================================================

----------------------------- MODULE JaqGen -----------------------------
(***************************************************************************)
(* Scope- and arity-aware enumeration of programs by node count            *)
(* (DESIGN 2.3).  G(fam, n, sc) is the set of syntax trees of family fam   *)
(* with exactly n constructors whose free names are bound by the scope sc: *)
(*   sc.vs  variables, sc.ls labels,                                       *)
(*   sc.f0  names of filters without arguments (definitions or closure     *)
(*          parameters), sc.f1v / sc.f1f definitions with one variable /   *)
(*          one filter parameter.                                          *)
(* A binder extends the scope of its body only.                            *)
(***************************************************************************)
EXTENDS JaqLib

Sc0 == [vs |-> {}, ls |-> {}, f0 |-> {}, f1v |-> {}, f1f |-> {}]

VarNames == {"x", "y"}
LblNames == {"l"}

TTryE(f) == TTry(f, TC0("empty"))
\* bombs of C03: divergence when the stream is built, divergence when it is pulled, an error on null
DivC == TBin("//", TC1("repeat", TC0("empty")), TId)
DivN == TDefs(<< TDef("d", <<>>, TC0("d")) >>, TC0("d"))
NullErr == TIf(TId, TId, TC0("error"))
\* the recursive step of the family "rec": . - 1 | f
RecCall == TPipe(TBin("-", TId, TNum(1)), TC0("f"))

\* all ways to split n into two positive parts
Split2(n) == {<< a, n - a >> : a \in 1..(n - 1)}
Split3(n) == {<< a, b, n - a - b >> : a \in 1..(n - 2), b \in 1..(n - 2)} \cap {s \in (1..n) \X (1..n) \X (1..n) : s[1] + s[2] + s[3] = n}

RECURSIVE G(_, _, _)

Leaves(fam, sc) ==
  {TId} \cup {TVar(x) : x \in sc.vs} \cup {TBreak(l) : l \in sc.ls} \cup {TC0(f) : f \in sc.f0}
  \cup (CASE fam = "binders" -> {TNum(1)}
          [] fam = "order" -> {TNum(1), TC0("empty"), TC0("error"), TC0("null")}
          [] fam = "paths" -> {TC0("empty"), TC0("error"), TRec, TIter, TIterO, TAt(TNum(0)), TAt(TNeg(TNum(1))),
                               TKey("a"), TPath(TId, << PFrom(TNum(1)) >>), TPath(TId, << PIdxO(TNum(0)) >>),
                               TPath(TId, << PUpto(TNum(1)) >>)}
          [] fam = "streams" -> {TNum(1), TC0("empty"), TC0("error"), TC0("null"), DivC, DivN, NullErr}
          [] fam = "lazyp" -> {TAt(TNum(0)), TPath(TId, << PIdxO(TNum(1)) >>), TIter, TC0("empty"), TC0("error"), DivC, DivN}
          [] fam = "eqf" -> {TNum(1), TC0("null"), TC0("empty"), TC0("error"), TIterO}
          [] fam = "rec" -> {TNum(1), TC0("empty"), TC0("error"), RecCall}
          [] fam = "recb" -> {TNum(1), TC0("empty"), TC0("error")}
          [] OTHER -> {})

Bin(fam) ==
  CASE fam = "binders" -> {"|", ",", "+"}
    [] fam = "order" -> {"|", ",", "//", "or", "and", "+", "-", "<", "=="}
    [] fam = "paths" -> {"|", ",", "//"}
    [] fam = "streams" -> {"|", ",", "//"}
    [] fam = "lazyp" -> {"|", ",", "//"}
    [] fam = "eqf" -> {","}
    [] fam \in {"rec", "recb"} -> {"|", ",", "+", "//"}
    [] OTHER -> {}

\* unary wrappers: each adds one node
Unary(fam, sc, t) ==
  CASE fam = "binders" -> {TArr(t), TTryE(t)} \cup {TC1(f, t) : f \in sc.f1v \cup sc.f1f}
    [] fam = "order" -> {TArr(t), TTryE(t), TNeg(t), TObj(<< TE(TStr(Ascii("a")), t) >>)}
    [] fam = "paths" -> {TTryE(t), TC1("first", t), TC1("last", t), TC1("select", t), TC1("recurse", t),
                         TC2("limit", TNum(1), t), TC2("skip", TNum(1), t), TC1("getpath", TArr(t))}
                        \cup {TC1(f, t) : f \in sc.f1f}
    [] fam = "streams" -> {TArr(t), TTryE(t), TC1("first", t), TC1("last", t), TC1("isempty", t), TC1("repeat", t),
                           TC2("limit", TNum(0), t), TC2("limit", TNum(1), t), TC2("limit", TNum(2), t),
                           TC2("limit", TNeg(TNum(1)), t),
                           TC2("skip", TNum(0), t), TC2("skip", TNum(1), t), TC2("skip", TNum(2), t),
                           TC2("nth", TNum(0), t), TC2("nth", TNum(1), t), TC1("add", t),
                           TC2("any", t, TId), TC2("all", t, TId), TC1("any", t), TC1("all", t), TC1("recurse", t)}
    [] fam = "lazyp" -> {TTryE(t), TC1("first", t), TC2("limit", TNum(1), t), TC2("limit", TNum(2), t), TC2("skip", TNum(1), t),
                         TC1("select", t)}
    [] fam \in {"rec", "recb"} -> {TArr(t), TTryE(t), TTry(t, TStr(Ascii("c"))), TC1("first", t)}
    [] OTHER -> {}

HasBinders(fam) == fam # "eqf" /\ fam \in {"binders", "paths", "streams", "rec", "recb", "lazyp"}
HasDefs(fam) == fam \in {"binders", "paths"}

G(fam, n, sc) ==
  IF n < 1 THEN {}
  ELSE IF n = 1 THEN Leaves(fam, sc)
  ELSE
    \* unary wrappers
    UNION {Unary(fam, sc, t) : t \in G(fam, n - 1, sc)}
    \* binary operators
    \cup UNION {{TBin(op, a, b) : op \in Bin(fam), a \in G(fam, s[1], sc), b \in G(fam, s[2], sc)} : s \in Split2(n - 1)}
    \* f as $x | g
    \cup (IF HasBinders(fam)
          THEN UNION {UNION {{TAs(a, x, b) : a \in G(fam, s[1], sc),
                                             b \in G(fam, s[2], [sc EXCEPT !.vs = @ \cup {x}])} : x \in VarNames}
                      : s \in Split2(n - 1)}
          ELSE {})
    \* label $l | f
    \cup (IF fam \in {"binders", "streams", "rec", "recb"}
          THEN UNION {{TLabel(l, a) : a \in G(fam, n - 1, [sc EXCEPT !.ls = @ \cup {l}])} : l \in LblNames}
          ELSE {})
    \* if c then t else e end
    \cup (IF fam \in {"order", "paths", "lazyp"} /\ n >= 4
          THEN UNION {{TIf(c, a, b) : c \in G(fam, s[1], sc), a \in G(fam, s[2], sc), b \in G(fam, s[3], sc)} : s \in Split3(n - 1)}
          ELSE {})
    \* reduce / foreach xs as $x (init; upd)
    \cup (IF HasBinders(fam) /\ n >= 4
          THEN UNION {{IF r THEN TReduce(xs, "x", i, u) ELSE TForeach(xs, "x", i, u) :
                         r \in BOOLEAN, xs \in G(fam, s[1], sc), i \in G(fam, s[2], sc),
                         u \in G(fam, s[3], [sc EXCEPT !.vs = @ \cup {"x"}])} : s \in Split3(n - 1)}
          ELSE {})
    \* definitions: def f: b; r   def f($x): b; r   def f(a): b; r
    \cup (IF HasDefs(fam)
          THEN UNION {
                 {TDefs(<< TDef("f", <<>>, b) >>, r) :
                    b \in G(fam, s[1], [sc EXCEPT !.f0 = @ \cup {"f"}]),
                    r \in G(fam, s[2], [sc EXCEPT !.f0 = @ \cup {"f"}])}
                 \cup
                 {TDefs(<< TDef("g", << PVv("x") >>, b) >>, r) :
                    b \in G(fam, s[1], [sc EXCEPT !.f1v = @ \cup {"g"}, !.vs = @ \cup {"x"}]),
                    r \in G(fam, s[2], [sc EXCEPT !.f1v = @ \cup {"g"}])}
                 \cup
                 {TDefs(<< TDef("h", << PF("a") >>, b) >>, r) :
                    b \in G(fam, s[1], [sc EXCEPT !.f1f = @ \cup {"h"}, !.f0 = @ \cup {"a"}]),
                    r \in G(fam, s[2], [sc EXCEPT !.f1f = @ \cup {"h"}])}
                 : s \in Split2(n - 1)}
          ELSE {})

(***************************************************************************)
(* family "rec": terminating recursion on a counter, the recursive call in *)
(* every context (tail and non-tail), under an outer label, after at least *)
(* one earlier recursive step:                                             *)
(*   label $x | 2 | def f: if . <= 0 then B else S end; W                  *)
(***************************************************************************)
RecSc == [Sc0 EXCEPT !.ls = {"x"}]
RecPrograms(maxn) ==
  LET Bs == UNION {G("recb", n, RecSc) : n \in 1..2}
      Ss == UNION {G("rec", n, RecSc) : n \in 1..maxn}
      Ws == {TC0("f"), TArr(TC0("f")), TC1("first", TC0("f")), TLabel("l", TC0("f")), TTryE(TC0("f"))}
  IN {TLabel("x", TPipe(TNum(2), TDefs(<< TDef("f", <<>>, TIf(TBin("<=", TId, TNum(0)), b, st)) >>, w))) :
        b \in Bs, st \in Ss, w \in Ws}

(***************************************************************************)
(* family "pathidx": compound paths whose index filters are multi-valued,  *)
(* empty or failing (manual: f[x][y:z] == f as $f | x as $x | y as $y ...) *)
(***************************************************************************)
IdxAlphabet == {TNum(0), TComma(TNum(0), TNum(1)), TComma(TNum(1), TC0("error")), TC0("empty"), TNeg(TNum(1)), TKey("a")}
PartAlphabet ==
  {PIdx(i) : i \in IdxAlphabet} \cup {PIdxO(i) : i \in {TNum(0), TComma(TNum(5), TStr(Ascii("a")))}}
  \cup {PIter, PIterO}
  \cup {PRng(i, j) : i \in {TNum(0), TComma(TNum(0), TNum(1))}, j \in {TNum(2), TComma(TNum(2), TNum(3)), TComma(TNum(1), TC0("error"))}}
  \cup {PFrom(i) : i \in {TComma(TNum(1), TNum(2))}} \cup {PUpto(j) : j \in {TComma(TNum(1), TNeg(TNum(1)))}}
PathIdxPrograms(maxn) ==
  LET Heads == {TId, TComma(TId, TArr(TId)), TC0("error")}
  IN {TPath(h, << p >>) : h \in Heads, p \in PartAlphabet}
     \cup (IF maxn >= 2 THEN {TPath(h, << p, q >>) : h \in {TId}, p \in PartAlphabet, q \in PartAlphabet} ELSE {})

\* lazy folds (added after seeded change C03-4): a prefix consumer around `foreach` whose source continues with a bomb; too deep
\* (7 nodes) for the exhaustive enumeration, so the shape is listed: in value mode and in path mode the bomb must not be reached
LazyFolds ==
  {c : c \in UNION {{TC1("first", f), TC2("limit", TNum(1), f), TC2("limit", TNum(1), TPipe(f, TAt(TNum(0))))} :
        f \in {TForeach(TComma(a, b), "x", i, u) :
                 a \in {TAt(TNum(0)), TIter}, b \in {TC0("error"), DivC, DivN, TC1("repeat", TId)}, i \in {TId, TAt(TNum(0))}, u \in {TId, TAt(TNum(0)), TPath(TId, << PIdxO(TNum(1)) >>)}}}}

Programs(fam, maxn) ==
  CASE fam = "rec" -> RecPrograms(maxn)
    [] fam = "pathidx" -> PathIdxPrograms(maxn)
    [] fam = "lazyp" -> UNION {G(fam, n, Sc0) : n \in 1..maxn} \cup LazyFolds
    [] OTHER -> UNION {G(fam, n, Sc0) : n \in 1..maxn}
=============================================================================

------------------------------ MODULE MC_Tramp ------------------------------
EXTENDS JaqTramp
CONSTANT MaxN
Init == TrampInit(MaxN)
Next == TrampStep
Spec == Init /\ [][Next]_tvars
=============================================================================

----------------------------- MODULE MC_Order -----------------------------
(* every pair / triple of atoms is one state; the order axioms and hash coherence are state invariants *)
EXTENDS JaqOrder
CONSTANT Triples
VARIABLES a, b, c
Init == a \in Atoms8 /\ b \in Atoms8 /\ c \in (IF Triples THEN Atoms8 ELSE {Null})
Next == UNCHANGED << a, b, c >>
Spec == Init /\ [][Next]_<< a, b, c >>
Order == PairAxioms(a, b)
Trans == TripleAxiom(a, b, c)
HashCoherent == HashCoherentPair(a, b)
\* a stable sort of two and three elements is the unique stably sorted permutation
SortStable == LET s == SortV(<< a, b, c >>) IN
   /\ \A i \in 1..2 : Cmp(s[i], s[i + 1]) <= 0
   /\ (Cmp(a, b) <= 0 /\ Cmp(b, c) <= 0) => s = << a, b, c >>
=============================================================================

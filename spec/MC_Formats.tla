----------------------------- MODULE MC_Formats -----------------------------
(***************************************************************************)
(* C14: every case is one initial state: a value (or a document), the      *)
(* round trip to run on the real code, the expected result, and `spec` -   *)
(* whether the specified writer / reader pair of JaqFormats round-trips it *)
(* (invariant SpecRoundTrip: the design is right on the whole domain).     *)
(***************************************************************************)
EXTENDS JaqFormats, Json

CONSTANTS Suite, Size
VARIABLES cs, done

Case(prog, vars, expect, spec) == [prog |-> prog, vars |-> vars, input |-> Null, expect |-> expect, spec |-> spec]
OkS(v) == [o |-> << v >>, e |-> [k |-> "ok"]]
ErrAny == [o |-> <<>>, e |-> [k |-> "err", v |-> IErr]]
V1(v) == << << "s", v >> >>
SV == TVar("s")
P(t) == TPipe(SV, t)
Thru(a, b) == TPipe(TC0(a), TC0(b))
RECURSIVE SeqsUpTo(_, _)
SeqsUpTo(A, n) == IF n = 0 THEN {<<>>} ELSE SeqsUpTo(A, n - 1) \cup {Append(s, a) : s \in SeqsUpTo(A, n - 1), a \in A}
RECURSIVE TokStrs(_, _)
TokStrs(T, n) == IF n = 0 THEN {<<>>} ELSE TokStrs(T, n - 1) \cup {s \o t : s \in TokStrs(T, n - 1), t \in T}

\* what reading a written number gives: a float literal is kept as decimal literal
RECURSIVE RT(_)
RT(v) ==
  CASE v.t = "flt" -> DecV(NumText(v))
    [] v.t = "nz" -> DecV(NumText(v))
    [] v.t = "arr" -> ArrV([i \in 1..Len(v.a) |-> RT(v.a[i])])
    [] v.t = "obj" -> ObjV([i \in 1..Len(v.o) |-> << RT(v.o[i][1]), RT(v.o[i][2]) >>])
    [] OTHER -> v

\* ---- YAML ----
\* + - . 0 1 e n a space tab : # ~ , [ " ' x newline a-umlaut ? & ! | > % @ ` { } ] * \ NEL BOM = f
YA == IF Size <= 2 THEN {43, 45, 46, 48, 49, 101, 110, 97, 32, 9, 58, 35, 126, 44, 91, 34, 39, 120, 10, 228, 63, 38, 33, 124, 62, 37, 64, 96, 123, 125, 93, 42, 92, 133, 65279, 61, 102, 13, 1, 127}
      ELSE {43, 45, 46, 48, 49, 101, 110, 97, 32, 9, 58, 35, 126, 44, 91, 34, 10, 228, 63, 92}
YToks == {<< 43 >>, << 45 >>, << 46 >>, << 49 >>, << 48 >>, << 101 >>, Ascii("inf"), Ascii("nan"), Ascii("null"), Ascii("true"), << 126 >>, << 32 >>, << 58 >>, << 35 >>,
          Ascii("---"), Ascii("..."), << 97 >>, << 120 >>, Ascii("NaN"), Ascii("INF"), Ascii("Null"), Ascii("no"), << 95 >>, << 111 >>, << 98 >>}
YStrs == SeqsUpTo(YA, IF Size <= 2 THEN Size ELSE 3) \cup TokStrs(YToks, IF Size = 1 THEN 2 ELSE 3)
YamlStrCases ==
  {LET sv == StrV(s) v == ArrV(<< sv, ArrV(<< sv, sv >>), ObjV(<< << sv, sv >> >>), ObjV(<< << StrV(<< 107 >>), sv >> >>) >>) IN
   Case(P(TArr(TPipe(TIter, Thru("toyaml", "fromyaml")))), V1(v), OkS(v), YamlRoundTrip(s)) : s \in YStrs}
JVals ==
  {Null, True, False, IntV(0), IntV(-7), BigV(FALSE, << 1,8,4,4,6,7,4,4,0,7,3,7,0,9,5,5,1,6,1,6 >>), BigV(TRUE, << 9,2,2,3,3,7,2,0,3,6,8,5,4,7,7,5,8,0,9 >>),
   FltV(1, 1), FltV(3, 2), FltV(-1, 8), FltV(100000, 1), NZero, NaN, Inf, NInf,
   DecV(<< 49, 46, 49, 48 >>), DecV(<< 49, 101, 49, 48, 48, 48 >>), DecV(<< 48, 46, 48 >>),
   BytesV(<<>>), BytesV(<< 97, 0, 255, 34, 92, 10, 127, 128 >>), StrV(<<>>), StrV(Ascii("a b")),
   ArrV(<<>>), ObjV(<<>>), ArrV(<< ArrV(<<>>), ObjV(<<>>), Null >>),
   ArrV(<< IntV(1), ArrV(<< IntV(2), ArrV(<< IntV(3) >>) >>), ObjV(<< << StrV(<< 97 >>), ArrV(<< IntV(4), ObjV(<< << StrV(<< 98 >>), ArrV(<<>>) >> >>) >>) >> >>) >>),
   ObjV(<< << StrV(<< 98 >>), IntV(1) >>, << StrV(<< 97 >>), ArrV(<< IntV(2), StrV(<< 34 >>) >>) >> >>),
   ObjV(<< << IntV(1), Null >>, << Null, IntV(1) >>, << True, False >>, << ArrV(<< IntV(1) >>), ObjV(<< << StrV(<<>>), StrV(Ascii("x")) >> >>) >>, << BytesV(<< 1 >>), FltV(1, 2) >>,
           << ObjV(<< << StrV(<< 97 >>), IntV(1) >> >>), ArrV(<< ArrV(<<>>) >>) >>, << StrV(Ascii("1")), StrV(Ascii("null")) >>, << FltV(3, 2), NaN >> >>)}
\* every spelling of the exponent: read back as a number of the same value (the reader may normalise the spelling)
ExpSpellings == {Ascii("1.5E3"), Ascii("2E-2"), Ascii("-7E+1"), Ascii("1e+2"), Ascii("0.0e0"), Ascii("1E1000")}
YamlValCases == {Case(P(Thru("toyaml", "fromyaml")), V1(v), OkS(RT(v)), TRUE) : v \in JVals}
                \cup {Case(P(TPipe(Thru("toyaml", "fromyaml"), TArr(TComma(TBin("==", TId, SV), TC0("type"))))), V1(DecV(d)), OkS(ArrV(<< True, StrV(Ascii("number")) >>)), TRUE) : d \in ExpSpellings}
                \cup {Case(P(TPipe(TArr(TId), TPipe(Thru("toyaml", "fromyaml"), TArr(TComma(TBin("==", TAt(TNum(0)), SV), TPipe(TAt(TNum(0)), TC0("type"))))))), V1(DecV(d)), OkS(ArrV(<< True, StrV(Ascii("number")) >>)), TRUE) : d \in ExpSpellings}

\* ---- CSV / TSV ----
FieldStrs == {<<>>, << 97 >>, Ascii("a,b"), << 97, 34, 98 >>, << 34 >>, << 34, 34 >>, << 97, 10, 98 >>, << 97, 13, 98 >>, << 13, 10 >>, Ascii("1"), Ascii("true"), << 32 >>, << 45 >>, << 44 >>,
              Ascii("-1.5e3"), Ascii("null"), << 228, 8364 >>, << 9 >>, << 97, 32 >>, Ascii("NaN")}
Fields == {Null, True, False, IntV(0), IntV(-12), FltV(3, 2), BigV(FALSE, << 1,8,4,4,6,7,4,4,0,7,3,7,0,9,5,5,1,6,1,6 >>)} \cup {StrV(s) : s \in FieldStrs}
AbsField(v) == CASE v.t = "null" -> [k |-> "null"] [] v.t = "bool" -> [k |-> "bool", c |-> TextOf(v)] [] v.t = "str" -> [k |-> "str", c |-> v.c] [] OTHER -> [k |-> "num", c |-> TextOf(v)]
Rows == {<< a >> : a \in Fields} \cup {<< a, b >> : a \in Fields, b \in Fields} \cup (IF Size > 1 THEN {<< a, b, a >> : a \in Fields, b \in Fields} ELSE {})
CsvCases ==
  {Case(P(TPipe(TC0("tocsv"), TArr(TC0("fromcsv")))), V1(ArrV(r)), OkS(ArrV(<< RT(ArrV(r)) >>)), CsvRoundTrip([i \in 1..Len(r) |-> AbsField(r[i])])) : r \in Rows \ {<< Null >>}}
  \cup {Case(P(TC0(f)), V1(v), ErrAny, TRUE) : f \in {"tocsv", "totsv"},
          v \in {Null, IntV(1), StrV(<< 97 >>), ObjV(<<>>), ArrV(<< ArrV(<<>>) >>), ArrV(<< ObjV(<<>>) >>), ArrV(<< IntV(1), BytesV(<< 97 >>) >>)}}
TsvStrs == {<< 97 >>, << 97, 9, 98 >>, << 97, 92, 98 >>, << 97, 10, 98 >>, << 92, 110 >>, << 97, 0, 98 >>, << 32 >>, Ascii("x1"), << 228 >>, Ascii("tru"), << 92 >>, << 92, 92 >>, << 13 >>, << 34 >>,
            << 92, 48 >>, Ascii("a,b"), << 97, 32 >>, << 45 >>, Ascii("1a"), Ascii("nan")}
TsvRows == {<< StrV(a) >> : a \in TsvStrs} \cup {<< StrV(a), StrV(b) >> : a \in TsvStrs, b \in TsvStrs}
TsvCases == {Case(P(TPipe(TC0("totsv"), TArr(TC0("fromtsv")))), V1(ArrV(r)), OkS(ArrV(<< ArrV(r) >>)), TsvRoundTrip([i \in 1..Len(r) |-> AbsField(r[i])])) : r \in TsvRows}

\* ---- TOML ----
TKeys == {<< 97 >>, Ascii("a b"), <<>>, Ascii("a.b"), << 228 >>, Ascii("1"), Ascii("true"), Ascii("a-b_1"), << 34 >>, << 107, 10 >>, << 39 >>, << 92 >>, << 61 >>, << 35 >>, << 91 >>}
TLeaves == {IntV(0), IntV(-5), BigV(FALSE, << 9,2,2,3,3,7,2,0,3,6,8,5,4,7,7,5,8,0,7 >>), BigV(TRUE, << 9,2,2,3,3,7,2,0,3,6,8,5,4,7,7,5,8,0,8 >>), FltV(3, 2), Inf, NInf,
            StrV(<<>>), StrV(<< 34, 92, 10, 9, 1, 127, 228, 39, 13 >>), StrV(Ascii("a b")), True, False, ArrV(<<>>), ArrV(<< IntV(1), StrV(<< 115 >>) >>), ObjV(<<>>), ArrV(<< ArrV(<<>>) >>)}
O1(k, v) == ObjV(<< << StrV(k), v >> >>)
A1 == << 97 >>
TomlDocs ==
  {O1(k, l) : k \in TKeys, l \in TLeaves}
  \cup {O1(A1, O1(k, l)) : k \in TKeys, l \in TLeaves}
  \cup {O1(A1, ArrV(<< O1(k, l), O1(<< 98 >>, IntV(1)) >>)) : k \in TKeys, l \in TLeaves}
  \cup {O1(A1, ArrV(<< ArrV(<< IntV(1) >>), O1(k, l) >>)) : k \in {<< 97 >>, <<>>, Ascii("a b")}, l \in TLeaves}
  \cup {ObjV(<< << StrV(A1), O1(<< 98 >>, O1(k, l)) >>, << StrV(<< 100 >>), IntV(1) >>, << StrV(<< 101 >>), ArrV(<< O1(<< 102 >>, ArrV(<< O1(k, l) >>)) >>) >> >>) : k \in {<< 97 >>, <<>>, Ascii("a.b")}, l \in TLeaves}
  \cup {ObjV(<<>>)}
TomlBad == {IntV(0), ArrV(<<>>), StrV(<< 97 >>), Null, O1(A1, Null), O1(A1, BytesV(<< 97 >>)), O1(A1, ArrV(<< Null >>)), ObjV(<< << IntV(1), IntV(2) >> >>),
            O1(A1, ObjV(<< << Null, IntV(2) >> >>)), O1(A1, ArrV(<< O1(A1, Null) >>)), O1(A1, ArrV(<< ObjV(<< << IntV(1), IntV(2) >> >>) >>))}
TomlCases ==
  {Case(P(TBin("==", Thru("totoml", "fromtoml"), TId)), V1(v), OkS(True), TomlDomain(v)) : v \in TomlDocs}
  \cup {Case(P(TC0("totoml")), V1(v), ErrAny, ~(v.t = "obj" /\ TomlWritable(v))) : v \in TomlBad}
  \cup {Case(P(TPipe(Thru("totoml", "fromtoml"), TArr(TPipe(TIter, TC0("tojson"))))), V1(ObjV(<< << StrV(A1), NZero >>, << StrV(<< 98 >>), NaN >> >>)),
             OkS(ArrV(<< StrV(Ascii("-0.0")), StrV(Ascii("NaN")) >>)), TRUE)}

\* ---- CBOR ----
Rep(c, n) == [i \in 1..n |-> c]
CborInts == {0, 1, 23, 24, 25, 255, 256, 257, 65535, 65536, 65537, 1000000, -1, -23, -24, -25, -26, -255, -256, -257, -258, -65535, -65536, -65537, -65538, 2147483647, -2147483647}
BigEdges == {Ascii("4294967295"), Ascii("4294967296"), Ascii("4294967297"), Ascii("9223372036854775807"), Ascii("9223372036854775808"), Ascii("18446744073709551615"),
             Ascii("18446744073709551616"), Ascii("18446744073709551617"), Ascii("1180591620717411303424"), Ascii("340282366920938463463374607431768211456")}
CborVals ==
  {IntV(n) : n \in CborInts} \cup {BigV(neg, [i \in 1..Len(d) |-> d[i] - 48]) : neg \in BOOLEAN, d \in BigEdges}
  \cup {FltV(3, 2), FltV(1, 2), FltV(-1, 4), NZero, FltV(100000, 1), FltV(1, 1024), FltV(65504, 1), FltV(1, 1), NaN, Inf, NInf, Null, True, False}
  \cup {StrV(Rep(97, n)) : n \in {0, 1, 23, 24, 255, 256}} \cup {StrV(<< 228, 8364, 128578, 0, 34 >>)}
  \cup {BytesV(Rep(255, n)) : n \in {0, 1, 23, 24, 256}} \cup {BytesV(<< 0, 127, 128, 255 >>)}
  \cup {ArrV(Rep(IntV(1), n)) : n \in {0, 1, 23, 24, 25}} \cup {ArrV(<< ArrV(<<>>), ObjV(<<>>), ArrV(<< Null, ArrV(<< True >>) >>) >>)}
  \cup {ObjV(<< << IntV(1), Null >>, << Null, IntV(1) >>, << ArrV(<< IntV(1) >>), ObjV(<< << StrV(<<>>), StrV(<< 97 >>) >> >>) >>, << BytesV(<< 1 >>), FltV(1, 2) >>, << StrV(<< 98 >>), ArrV(<<>>) >>, << FltV(3, 2), IntV(-1) >> >>)}
  \cup {ObjV([i \in 1..24 |-> << IntV(i), IntV(-i) >>])}
  \* beyond every plausible pre-allocation limit
  \cup {ArrV(Rep(IntV(1), n)) : n \in {1024, 1025, 70000}} \cup {ObjV([i \in 1..1025 |-> << IntV(i), Null >>])} \cup {StrV(Rep(97, 70000)), BytesV(Rep(1, 70000))}
CborCases ==
  {Case(P(Thru("tocbor", "fromcbor")), V1(v), OkS(v), IF v.t = "int" THEN CborIntRoundTrip(v.n) ELSE TRUE) : v \in CborVals}
  \cup {Case(P(TPipe(TC0("tocbor"), TC0("tobytes"))), V1(IntV(n)), OkS(BytesV(CborInt(n))), CborIntRoundTrip(n)) : n \in CborInts}
  \* decimal literals arrive as floating-point numbers (their spelling is the documented exception)
  \cup {Case(P(Thru("tocbor", "fromcbor")), V1(DecV(Ascii("1.50"))), OkS(FltV(3, 2)), TRUE), Case(P(Thru("tocbor", "fromcbor")), V1(DecV(Ascii("2.5e-1"))), OkS(FltV(1, 4)), TRUE)}

\* ---- XML ----
XElems == {Ascii("<b/>"), Ascii("<b></b>"), Ascii("<b>t</b>"), Ascii("<b c=\"1\" d='2'/>"), Ascii("<b><c/>t<d>u</d></b>"), Ascii("<b>&amp;&lt;&gt;</b>"), Ascii("<!--c-->"),
           Ascii("<![CDATA[x<y]]>"), Ascii("<?pi x?>"), Ascii("<x:b xmlns:x=\"u\"/>"), Ascii(" t "), Ascii("<b> <c/> </b>"), Ascii("<b c=\"&quot;'&amp;\"/>"), << 60, 98, 62, 228, 8364, 60, 47, 98, 62 >>,
           Ascii("<b c=\"\"/>"), Ascii("<b>a<!--c-->b</b>"), <<>>, << 10 >>, Ascii("&#65;&#x42;"), Ascii("<b c=\"a  b\"></b>")}
Wrap(pre, a, inner) == pre \o Ascii("<r") \o a \o << 62 >> \o inner \o Ascii("</r>")
XDocs ==
  {Wrap(<<>>, <<>>, e) : e \in XElems}
  \cup {Wrap(<<>>, Ascii(" a=\"v\""), e1 \o e2) : e1 \in XElems, e2 \in XElems}
  \cup {Wrap(pre, <<>>, e) : pre \in {Ascii("<?xml version=\"1.0\" encoding=\"UTF-8\"?>"), Ascii("<!DOCTYPE r>"), Ascii("<!--c-->"), Ascii("<?pi y?>"), << 32, 10 >>,
                                      Ascii("<?xml version=\"1.0\"?><!DOCTYPE r [<!ENTITY e \"v\">]>")}, e \in {<<>>, Ascii("<b/>"), << 116 >>}}
  \cup {Ascii("<r/>"), Ascii("<r/> "), Ascii("<r a='1'/>")}
\* a document is a sequence of values (prologue items, root): written one after the other and read again
XmlCases == {Case(P(TAs(TArr(TC0("fromxml")), "x", TBin("==", TPipe(TPipe(TArr(TPipe(TPipe(TVar("x"), TIter), TC0("toxml"))), TC0("add")), TArr(TC0("fromxml"))), TVar("x")))),
                  V1(StrV(d)), OkS(True), TRUE) : d \in XDocs}

AllCases == CASE Suite = "yaml-str" -> YamlStrCases [] Suite = "yaml-val" -> YamlValCases [] Suite = "csv" -> CsvCases [] Suite = "tsv" -> TsvCases
              [] Suite = "toml" -> TomlCases [] Suite = "cbor" -> CborCases [] Suite = "xml" -> XmlCases
Init == cs \in AllCases /\ done = FALSE
Emit == ~done /\ done' = TRUE /\ UNCHANGED cs /\ PrintT(<< "VEC", ToJson(cs) >>)
Spec == Init /\ [][Emit]_<< cs, done >>
TypeOK == cs.expect.e.k \in {"ok", "err"}
\* the specified writer / reader pair round-trips every value of the domain
SpecRoundTrip == cs.spec
=============================================================================

------------------------------ MODULE JaqTime ------------------------------
(***************************************************************************)
(* Date and time (manual, stdlib "Date & Time"; property C20).             *)
(*                                                                         *)
(* The proleptic Gregorian calendar in integers, twice:                    *)
(*   A. as a successor relation on civil dates (NextDay / PrevDay) that    *)
(*      uses nothing but the month lengths and the 4/100/400 leap rule;    *)
(*   B. in closed form (DaysFromCivil / CivilFromDays, era arithmetic).    *)
(* MC_Calendar walks A day by day and checks that B agrees in every state. *)
(*                                                                         *)
(* On top of B: Unix time <-> broken-down time <-> ISO 8601 text.  Unix    *)
(* times exceed TLC's integers and travel as signed digit sequences        *)
(* (BigNat's Z); a time of day and a day number always fit.                *)
(***************************************************************************)
EXTENDS JaqCodec

IsLeap(y) == (y % 4 = 0 /\ y % 100 # 0) \/ y % 400 = 0
MonthLen(y, m) == IF m = 2 THEN (IF IsLeap(y) THEN 29 ELSE 28) ELSE IF m \in {4, 6, 9, 11} THEN 30 ELSE 31
ValidDate(y, m, d) == m \in 1..12 /\ d >= 1 /\ d <= MonthLen(y, m)

\* A: the day after / before
NextDay(c) == LET y == c[1] m == c[2] d == c[3] IN
  IF d < MonthLen(y, m) THEN << y, m, d + 1 >> ELSE IF m < 12 THEN << y, m + 1, 1 >> ELSE << y + 1, 1, 1 >>
PrevDay(c) == LET y == c[1] m == c[2] d == c[3] IN
  IF d > 1 THEN << y, m, d - 1 >> ELSE IF m > 1 THEN << y, m - 1, MonthLen(y, m - 1) >> ELSE << y - 1, 12, 31 >>

\* B: closed form; day 0 is 1970-01-01.  (\div is floor division, % is the non-negative remainder)
DaysFromCivil(y, m, d) ==
  LET yy == IF m <= 2 THEN y - 1 ELSE y
      era == yy \div 400
      yoe == yy - era * 400
      mp == (m + 9) % 12
      doy == (153 * mp + 2) \div 5 + d - 1
      doe == yoe * 365 + yoe \div 4 - yoe \div 100 + doy
  IN era * 146097 + doe - 719468
CivilFromDays(n) ==
  LET z == n + 719468
      era == z \div 146097
      doe == z - era * 146097
      yoe == (doe - doe \div 1460 + doe \div 36524 - doe \div 146096) \div 365
      doy == doe - (365 * yoe + yoe \div 4 - yoe \div 100)
      mp == (5 * doy + 2) \div 153
      d == doy - (153 * mp + 2) \div 5 + 1
      m == IF mp < 10 THEN mp + 3 ELSE mp - 9
      y == yoe + era * 400 + (IF m <= 2 THEN 1 ELSE 0)
  IN << y, m, d >>

RECURSIVE DaysBeforeMonth(_, _)
DaysBeforeMonth(y, m) == IF m = 1 THEN 0 ELSE DaysBeforeMonth(y, m - 1) + MonthLen(y, m - 1)
YearDay(y, m, d) == DaysBeforeMonth(y, m) + d - 1     \* from 0
WeekDay(n) == (n + 4) % 7                              \* from Sunday; 1970-01-01 was a Thursday

-----------------------------------------------------------------------------
\* Unix time as Z (seconds) -> << day number, second of day >>, or "far" when the day number is out of any range
D86400 == << 8, 6, 4, 0, 0 >>
SplitEpoch(z) ==
  IF Len(Strip(z.d)) > 13 THEN << "far" >>
  ELSE LET qr == DivMod(Strip(z.d), D86400)
           q == MagVal(qr[1], 0)
           r == MagVal(qr[2], 0)
       IN IF ~z.neg THEN << "ok", q, r >> ELSE IF r = 0 THEN << "ok", -q, 0 >> ELSE << "ok", -q - 1, 86400 - r >>
\* << day number, second of day >> -> Z
JoinEpoch(n, sod) == ZAdd(ZMul(ZOfInt(n), ZOfInt(86400)), ZOfInt(sod))

\* the representable range: "must" (UTC year in -9998..9998), "may" (years -9999 and 9999: accepted with the right
\* answer or rejected), "no" (beyond: must be rejected)
YearClass(y) == IF y >= -9998 /\ y <= 9998 THEN "must" ELSE IF y >= -9999 /\ y <= 9999 THEN "may" ELSE "no"
EpochClass(z) == LET s == SplitEpoch(z) IN IF s[1] = "far" THEN "no" ELSE IF s[2] > 4000000 \/ s[2] < -4400000 THEN "no" ELSE YearClass(CivilFromDays(s[2])[1])

\* broken-down time of a Unix time (class # "no"); sec is given by the caller (integer, or seconds with fraction)
Bdt(n, sod) == LET c == CivilFromDays(n) IN
  [y |-> c[1], mo |-> c[2] - 1, d |-> c[3], h |-> sod \div 3600, mi |-> (sod % 3600) \div 60, s |-> sod % 60, wd |-> WeekDay(n), yd |-> YearDay(c[1], c[2], c[3])]
BdtArr(b, secv) == ArrV(<< IntV(b.y), IntV(b.mo), IntV(b.d), IntV(b.h), IntV(b.mi), secv, IntV(b.wd), IntV(b.yd) >>)
Gmtime(z) == LET s == SplitEpoch(z) b == Bdt(s[2], s[3]) IN BdtArr(b, IntV(b.s))

\* ISO 8601 / RFC 3339 text (years 0..9999)
Pad(n, w) == LET t == IntText(n) IN [i \in 1..(w - Len(t)) |-> 48] \o t
IsoText(b, frac) == Pad(b.y, 4) \o << 45 >> \o Pad(b.mo + 1, 2) \o << 45 >> \o Pad(b.d, 2) \o << 84 >> \o Pad(b.h, 2) \o << 58 >> \o Pad(b.mi, 2) \o << 58 >> \o Pad(b.s, 2) \o frac
Todate(z) == LET s == SplitEpoch(z) IN IsoText(Bdt(s[2], s[3]), <<>>) \o << 90 >>

\* mktime of the first six fields (all integers here); result: << "ok", Z >> | << "may", Z >> | << "err" >>
Mktime(y, mo, d, h, mi, s) ==
  IF ~(mo \in 0..11 /\ ValidDate(y, mo + 1, d) /\ h \in 0..23 /\ mi \in 0..59 /\ s \in 0..59) \/ YearClass(y) = "no" THEN << "err" >>
  ELSE << IF YearClass(y) = "must" THEN "ok" ELSE "may", JoinEpoch(DaysFromCivil(y, mo + 1, d), h * 3600 + mi * 60 + s) >>

ZToVal(z) == MkInt(z)
=============================================================================

----------------------------- MODULE Trace_Time -----------------------------
(***************************************************************************)
(* Trace validation for the time filters: each line records one real run   *)
(*   {neg, d: digits of a Unix time, gm: output of gmtime, iso: code points *)
(*    of the output of todate, mk: digits of (gmtime | mktime), mkneg}      *)
(* and must be what JaqTime prescribes.  A line that is not is reported    *)
(* and skipped, so the rest of the trace is still checked.                 *)
(***************************************************************************)
EXTENDS JaqTime, Json, IOUtils

Rec == ndJsonDeserialize(IOEnv.TRACE)
VARIABLES l, rejected

Agree(r) ==
  LET z == Z(r.neg, r.d) IN
  /\ EpochClass(z) = "must"
  /\ LET g == Gmtime(z).a IN [i \in 1..8 |-> g[i].n] = r.gm
  /\ (CivilFromDays(SplitEpoch(z)[2])[1] >= 0 => Todate(z) = r.iso)
  /\ Z(r.mkneg, r.mk) = z

Init == l = 1 /\ rejected = 0
Next == /\ l <= Len(Rec)
        /\ l' = l + 1
        /\ IF Agree(Rec[l]) THEN UNCHANGED rejected
           ELSE rejected' = rejected + 1 /\ PrintT(<< "REJECTED", ToJson([line |-> l, rec |-> Rec[l]]) >>)
Spec == Init /\ [][Next]_<< l, rejected >>
Consumed == l = Len(Rec) + 1
Report == Consumed => PrintT(<< "RESULT", Len(Rec), rejected >>)
=============================================================================

----------------------------- MODULE MC_Parse -----------------------------
(* every ordered pair / triple of binary operators in every grouping, and every prefix / postfix / binder *)
(* construct as left and right operand of every operator: one state per (tree, parenthesisation mode)     *)
EXTENDS JaqParse, Json

CONSTANTS Shape

AllOps == BinOps \cup {"as"}
\* one representative per precedence level and associativity
RepOps == {"|", ",", "as", "=", "//=", "//", "or", "and", "==", "<", "+", "-", "*", "%"}

L1 == TNum(1)
L2 == TNum(2)
L3 == TNum(3)
L4 == TNum(4)
B(op, l, r) == IF op = "as" THEN TAs(l, "x", r) ELSE TBin(op, l, r)

Pairs == {B(o2, B(o1, L1, L2), L3) : o1 \in AllOps, o2 \in AllOps} \cup {B(o1, L1, B(o2, L2, L3)) : o1 \in AllOps, o2 \in AllOps}
Triples(Ops) ==
  {B(o3, B(o2, B(o1, L1, L2), L3), L4) : o1 \in Ops, o2 \in Ops, o3 \in Ops}
  \cup {B(o3, B(o1, L1, B(o2, L2, L3)), L4) : o1 \in Ops, o2 \in Ops, o3 \in Ops}
  \cup {B(o2, B(o1, L1, L2), B(o3, L3, L4)) : o1 \in Ops, o2 \in Ops, o3 \in Ops}
  \cup {B(o1, L1, B(o3, B(o2, L2, L3), L4)) : o1 \in Ops, o2 \in Ops, o3 \in Ops}
  \cup {B(o1, L1, B(o2, L2, B(o3, L3, L4))) : o1 \in Ops, o2 \in Ops, o3 \in Ops}

\* prefix, postfix, binder and keyword constructs
Specials(x) == {TNeg(x), TTry(x, TC0("empty")), TTry(x, L4), TPath(x, << PIdx(L4) >>), TPath(x, << PIter >>),
                TPath(x, << PIdxO(L4) >>), TLabel("l", x), TDefs(<< TDef("f", <<>>, x) >>, TC0("f")), TDefs(<< TDef("f", <<>>, L4) >>, x),
                TIf(x, L3, L4), TIf(L3, x, L4), TIf(L3, L4, x), TReduce(x, "x", L3, L4), TReduce(L3, "x", x, L4), TReduce(L3, "x", L4, x),
                TArr(x), TC1("g", x), TNeg(TNeg(x)), TTry(TNeg(x), TC0("empty")), TNeg(TTry(x, TC0("empty"))), TNeg(TPath(x, << PIdx(L4) >>))}
SpecialTrees ==
  UNION {Specials(B(o, L1, L2)) : o \in AllOps}
  \cup UNION {{B(o, s, L3), B(o, L3, s)} : o \in AllOps, s \in Specials(L1) \cup Specials(B("+", L1, L2)) \cup Specials(B(",", L1, L2)) \cup Specials(B("as", L1, L2))}

Trees == CASE Shape = "pairs" -> Pairs
           [] Shape = "triples-rep" -> Triples(RepOps)
           [] Shape = "triples-all" -> Triples(AllOps)
           [] Shape = "specials" -> SpecialTrees

VARIABLES tree, mode, done
Init == tree \in Trees /\ mode \in {"min", "red", "full"} /\ done = FALSE
Emit == ~done /\ done' = TRUE /\ UNCHANGED << tree, mode >>
        /\ PrintT(<< "VEC", ToJson([mode |-> "parse", pmode |-> mode, tokens |-> Render(tree, mode), tree |-> tree]) >>)
Spec == Init /\ [][Emit]_<< tree, mode, done >>

\* minimal rendering never has more tokens than the redundant / full ones, and "(" ")" are balanced
RECURSIVE Depth(_, _, _)
Depth(toks, i, d) == IF i > Len(toks) THEN d ELSE IF d < 0 THEN d
                     ELSE Depth(toks, i + 1, d + (IF toks[i] \in {"(", "[", "{"} THEN 1 ELSE IF toks[i] \in {")", "]", "}"} THEN -1 ELSE 0))
Balanced == Depth(Render(tree, mode), 1, 0) = 0
MinIsMin == Len(Render(tree, "min")) <= Len(Render(tree, mode))
=============================================================================

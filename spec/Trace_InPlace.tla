--------------------------- MODULE Trace_InPlace ---------------------------
(***************************************************************************)
(* Trace validation for --in-place: the file-system calls of the real jaq  *)
(* binary (recorded with strace, also under injected faults and kills) are *)
(* replayed, event by event, against JaqInPlace.  Each event must be an    *)
(* enabled action of the specification (internal steps FinishOk/FinishErr  *)
(* are composed with the next visible call); the final "Post" event is the *)
(* snapshot of the real file system, which must equal the specified one.   *)
(* All invariants of JaqInPlace are evaluated at every step.               *)
(*                                                                         *)
(* Several scenarios are concatenated: a "Header" event starts a new one.  *)
(* A scenario whose next event has no matching action is recorded as       *)
(* rejected and skipped, so the remaining scenarios are still checked.     *)
(***************************************************************************)
EXTENDS Integers, Sequences, FiniteSets, TLC, Json, IOUtils

Rec == ndJsonDeserialize(IOEnv.TRACE)

VARIABLES outc, pc, cur, fs, tmp, code, killed, l, nf, rejected
vars == << outc, pc, cur, fs, tmp, code, killed >>

M == INSTANCE JaqInPlace WITH NFmc <- 1, MaxW <- 1000000

Ev == Rec[l]
IsEv(e) == l <= Len(Rec) /\ Rec[l].ev = e
Step == l' = l + 1 /\ UNCHANGED << nf, rejected >>

Load(h) ==
  /\ nf' = h.nf
  /\ outc' = [i \in 1..h.nf |-> h.outc[i]]
  /\ pc' = "start" /\ cur' = 1
  /\ fs' = [i \in 1..h.nf |-> [c |-> "orig", m |-> "orig"]]
  /\ tmp' = [exists |-> FALSE, w |-> 0]
  /\ code' = -1 /\ killed' = FALSE

Init ==
  /\ l = 2 /\ rejected = <<>>
  /\ nf = Rec[1].nf
  /\ outc = [i \in 1..Rec[1].nf |-> Rec[1].outc[i]]
  /\ pc = "start" /\ cur = 1
  /\ fs = [i \in 1..Rec[1].nf |-> [c |-> "orig", m |-> "orig"]]
  /\ tmp = [exists |-> FALSE, w |-> 0]
  /\ code = -1 /\ killed = FALSE

THeader == IsEv("Header") /\ Load(Ev) /\ l' = l + 1 /\ UNCHANGED rejected
TOpen   == IsEv("Open") /\ cur = Ev.f /\ M!Open /\ Step
\* the input is read again with plain reads when it cannot be memory mapped: no change of the abstract state
TReopen == IsEv("Open") /\ ~killed /\ pc = "opened" /\ cur = Ev.f /\ UNCHANGED vars /\ Step
TMkTemp == IsEv("MkTemp") /\ M!MkTemp /\ Step
TWrite  == IsEv("Write") /\ ~killed /\ pc = "run" /\ tmp.exists
           /\ tmp' = [tmp EXCEPT !.w = @ + Ev.n] /\ UNCHANGED << outc, pc, cur, fs, code, killed >> /\ Step
\* stat of the input file: the filter has finished without error (internal step composed)
TStat   == IsEv("Stat") /\ ~killed /\ ((pc = "run" /\ outc[cur] = "ok") \/ pc = "fin")
           /\ pc' = "stat" /\ UNCHANGED << outc, cur, fs, tmp, code, killed >> /\ Step
TRename == IsEv("Rename") /\ cur = Ev.f /\ M!Rename /\ Step
TChmod  == IsEv("Chmod") /\ cur = Ev.f /\ Ev.mode_ok /\ M!Chmod /\ Step
\* a call returned an error
TFail   == IsEv("Fail") /\ ~killed /\
           (CASE Ev.call = "open" -> pc = "start"
              [] Ev.call = "mktemp" -> pc = "opened"
              [] Ev.call = "write" -> pc = "run"
              [] Ev.call = "stat" -> pc = "fin" \/ (pc = "run" /\ outc[cur] = "ok")
              [] Ev.call = "rename" -> pc = "stat"
              [] Ev.call = "chmod" -> pc = "renamed"
              [] OTHER -> FALSE)
           /\ pc' = "cleanup" /\ code' = 2 /\ UNCHANGED << outc, cur, fs, tmp, killed >> /\ Step
\* removal of the temporary file: after a failed call, or because the filter failed (internal step composed)
TUnlink == IsEv("Unlink") /\ ~killed /\ tmp.exists /\ (pc = "cleanup" \/ (pc = "run" /\ outc[cur] = "err"))
           /\ tmp' = [tmp EXCEPT !.exists = FALSE] /\ pc' = "cleanup" /\ code' = (IF pc = "run" THEN 5 ELSE code)
           /\ UNCHANGED << outc, cur, fs, killed >> /\ Step
TExit   == IsEv("Exit") /\ ~killed /\ pc = "cleanup" /\ ~tmp.exists /\ Ev.code = code
           /\ pc' = "exited" /\ UNCHANGED << outc, cur, fs, tmp, code, killed >> /\ Step
TKilled == IsEv("Killed") /\ M!Kill /\ Step
\* the real file system after the process is gone
TPost   == IsEv("Post") /\ (pc = "exited" \/ killed)
           /\ Len(Ev.files) = nf
           /\ \A i \in 1..nf : Ev.files[i].c = fs[i].c /\ Ev.files[i].m = fs[i].m
           /\ Ev.tmp = (IF tmp.exists THEN 1 ELSE 0)
           /\ UNCHANGED vars /\ Step

Visible == THeader \/ TOpen \/ TReopen \/ TMkTemp \/ TWrite \/ TStat \/ TRename \/ TChmod \/ TFail \/ TUnlink \/ TExit \/ TKilled \/ TPost

NextHeader(i) ==
  LET A == {j \in (i + 1)..Len(Rec) : Rec[j].ev = "Header"} IN IF A = {} THEN Len(Rec) + 1 ELSE CHOOSE j \in A : \A k \in A : j <= k

\* no action explains the next event: the scenario is rejected, validation resumes at the next one
TReject ==
  /\ l <= Len(Rec) /\ ~ENABLED Visible
  /\ rejected' = Append(rejected, l)
  /\ PrintT(<< "REJECTED", l, Rec[l], pc, cur >>)
  /\ l' = NextHeader(l)
  /\ UNCHANGED << nf, outc, pc, cur, fs, tmp, code, killed >>

Next == Visible \/ TReject
Spec == Init /\ [][Next]_<< vars, l, nf, rejected >>

\* invariants of the specification, evaluated in every state of every real run
Atomic == M!Atomic
OnlyAfterSuccess == M!OnlyAfterSuccess
InOrder == M!InOrder
Terminated == M!Terminated
ModeWindow == M!ModeWindow

Consumed == l = Len(Rec) + 1
Report == Consumed => PrintT(<< "RESULT", Len(rejected) >>)
=============================================================================

---------------------------- MODULE Trace_Sem ----------------------------
(***************************************************************************)
(* Trace validation, implementation -> specification, for the functional   *)
(* modules: every line of the trace is one run of the real code            *)
(*   [id, prog, input, observed |-> [o, e], manual (optional)]             *)
(* and must be a behaviour of JaqSem: the observed stream has to agree     *)
(* with Eval(prog, input) up to the point where the specification stops    *)
(* being definite (div / unk / unsup).  Lines are independent runs: a      *)
(* rejected line is recorded and the remaining ones are still checked.     *)
(***************************************************************************)
EXTENDS JaqLib, Json, IOUtils

Rec == ndJsonDeserialize(IOEnv.TRACE)

VARIABLES l, nrej, nfull, nprefix, nunsup
vars == << l, nrej, nfull, nprefix, nunsup >>

RECURSIVE NeedsCare(_)
NeedsCare(e) ==
  CASE e.t \in {"ierr", "oneof"} -> TRUE
    [] e.t = "arr" -> \E i \in 1..Len(e.a) : NeedsCare(e.a[i])
    [] e.t = "obj" -> e.uo \/ \E i \in 1..Len(e.o) : NeedsCare(e.o[i][1]) \/ NeedsCare(e.o[i][2])
    [] OTHER -> FALSE

RECURSIVE AgreeV(_, _)
\* does the real value act agree with the specified value exp?
AgreeV(exp, act) ==
  IF ~NeedsCare(exp) THEN exp = act
  ELSE CASE exp.t = "ierr" -> act.t = "str"
         [] exp.t = "oneof" -> \E i \in 1..Len(exp.alts) : AgreeV(exp.alts[i], act)
         [] exp.t = "arr" -> act.t = "arr" /\ Len(act.a) = Len(exp.a) /\ \A i \in 1..Len(exp.a) : AgreeV(exp.a[i], act.a[i])
         [] exp.t = "obj" ->
              act.t = "obj" /\ Len(act.o) = Len(exp.o) /\
              IF exp.uo
              THEN \A i \in 1..Len(exp.o) : \E j \in 1..Len(act.o) :
                      AgreeV(exp.o[i][1], act.o[j][1]) /\ AgreeV(exp.o[i][2], act.o[j][2])
              ELSE \A i \in 1..Len(exp.o) : AgreeV(exp.o[i][1], act.o[i][1]) /\ AgreeV(exp.o[i][2], act.o[i][2])

\* verdict of comparing the specified stream s with an observed stream obs
\*   "full": s definite and obs equal; "prefix": agree as far as s is definite;
\*   "unsup": not modelled; "reject": disagreement
Verdict(s, obs) ==
  LET n  == Len(s.o)
      no == Len(obs.o)
      common == IF n < no THEN n ELSE no
      itemsok == \A i \in 1..common : AgreeV(s.o[i], obs.o[i])
  IN IF ~itemsok THEN "reject"
     ELSE IF s.e.k = "ok" THEN
            IF obs.e.k = "ok" THEN (IF n = no THEN "full" ELSE "reject")
            ELSE IF obs.e.k = "cap" /\ no <= n THEN "prefix" ELSE "reject"
     ELSE IF s.e.k = "err" THEN
            IF obs.e.k = "err" /\ n = no
            THEN IF s.e.v.t = "ierr" THEN (IF obs.e.v.t = "str" THEN "full" ELSE "reject")
                 ELSE (IF AgreeV(s.e.v, obs.e.v) THEN "full" ELSE "reject")
            ELSE IF obs.e.k = "cap" /\ no <= n THEN "prefix" ELSE "reject"
     ELSE IF s.e.k = "halt" THEN
            IF obs.e.k = "halt" /\ n = no /\ obs.e.c = s.e.c THEN "full" ELSE "reject"
     ELSE IF s.e.k = "unsup" THEN "unsup"
     ELSE \* div / unk / brk: nothing is claimed beyond the n items
          IF no >= n \/ obs.e.k = "cap" THEN "prefix" ELSE "reject"

\* the manual's own expectation: a finite list of outputs
VerdictManual(s, m) ==
  IF s.e.k = "unsup" THEN "unsup"
  ELSE IF s.e.k = "ok" THEN
         (IF Len(m) = Len(s.o) /\ \A i \in 1..Len(m) : AgreeV(s.o[i], m[i]) THEN "full" ELSE "reject")
  ELSE LET c == IF Len(m) < Len(s.o) THEN Len(m) ELSE Len(s.o)
       IN IF (\A i \in 1..c : AgreeV(s.o[i], m[i])) /\ (s.e.k \in {"div", "unk"} \/ Len(m) <= Len(s.o))
          THEN "prefix" ELSE "reject"

Init == l = 1 /\ nrej = 0 /\ nfull = 0 /\ nprefix = 0 /\ nunsup = 0

Next ==
  /\ l <= Len(Rec)
  /\ LET r == Rec[l]
         s == RunProg(r.prog, r.input)
         v == Verdict(s, r.observed)
         vm == IF "manual" \in DOMAIN r THEN VerdictManual(s, r.manual) ELSE "none"
     IN /\ PrintT(<< "LINE", r.id, v, vm >>)
        /\ nrej' = nrej + (IF v = "reject" \/ vm = "reject" THEN 1 ELSE 0)
        /\ nfull' = nfull + (IF v = "full" THEN 1 ELSE 0)
        /\ nprefix' = nprefix + (IF v = "prefix" THEN 1 ELSE 0)
        /\ nunsup' = nunsup + (IF v = "unsup" THEN 1 ELSE 0)
  /\ l' = l + 1

Spec == Init /\ [][Next]_vars

\* every line has been consumed
Accepted ==
  /\ TLCGet("stats").diameter - 1 = Len(Rec)
=============================================================================

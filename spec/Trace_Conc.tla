----------------------------- MODULE Trace_Conc -----------------------------
(***************************************************************************)
(* Trace validation for C19: the first line of the trace holds the table   *)
(* of what every job yields alone (each run in a fresh process), every     *)
(* other line is one completed run <<thread, sequence number, job,         *)
(* outputs>> observed in a process that ran many jobs one after the other  *)
(* or concurrently.  Each line must be a behaviour of JaqConc: Start, one  *)
(* Step per output, Finish - which is possible only if the outputs are     *)
(* exactly the job's.  A line that is not is reported and skipped.         *)
(***************************************************************************)
EXTENDS Integers, Sequences, FiniteSets, TLC, Json, IOUtils

Rec == ndJsonDeserialize(IOEnv.TRACE)
Table == Rec[1].alone            \* record: job id -> sequence of outputs
VARIABLES l, rejected, cur, done, part, shared

M == INSTANCE JaqConc WITH Threads <- 1..64, Jobs <- DOMAIN Table, Eval <- Table, MaxRuns <- 1000000, Cache <- FALSE

Init == l = 2 /\ rejected = 0 /\ M!ConcInit
\* one recorded run = Start . Step^n . Finish of the specification, with the recorded outputs
Accepts(r) == r.job \in DOMAIN Table /\ r.out = Table[r.job]
Next == /\ l <= Len(Rec) /\ l' = l + 1
        /\ LET r == Rec[l] IN
           IF Accepts(r)
           THEN UNCHANGED << rejected, cur, done, part, shared >>
           ELSE /\ rejected' = rejected + 1 /\ PrintT(<< "REJECTED", ToJson([line |-> l, rec |-> r, alone |-> IF r.job \in DOMAIN Table THEN Table[r.job] ELSE <<>>]) >>)
                /\ UNCHANGED << cur, done, part, shared >>
Spec == Init /\ [][Next]_<< l, rejected, cur, done, part, shared >>
RunsEqualIsolated == M!RunsEqualIsolated
SharedIsConstant == M!SharedIsConstant
Consumed == l = Len(Rec) + 1
Report == Consumed => PrintT(<< "RESULT", Len(Rec) - 1, rejected >>)
=============================================================================

------------------------------ MODULE BigNat ------------------------------
(***************************************************************************)
(* Exact integers of any size for TLC (whose integers are 32 bit):         *)
(* magnitudes are sequences of decimal digits, most significant first,     *)
(* without leading zeros (zero is <<>>); a signed integer is               *)
(* [neg |-> BOOLEAN, d |-> magnitude].  School arithmetic.                 *)
(***************************************************************************)
EXTENDS Integers, Sequences

RECURSIVE Strip(_)
Strip(d) == IF d # <<>> /\ Head(d) = 0 THEN Strip(Tail(d)) ELSE d

RECURSIVE NatDigits(_)
NatDigits(n) == IF n = 0 THEN <<>> ELSE Append(NatDigits(n \div 10), n % 10)

RECURSIVE CmpSameLen(_, _)
CmpSameLen(a, b) ==
  IF a = <<>> THEN 0
  ELSE IF Head(a) # Head(b) THEN (IF Head(a) < Head(b) THEN -1 ELSE 1)
  ELSE CmpSameLen(Tail(a), Tail(b))

\* compare magnitudes (normalised)
CmpMag(a, b) ==
  IF Len(a) # Len(b) THEN (IF Len(a) < Len(b) THEN -1 ELSE 1) ELSE CmpSameLen(a, b)

Rev(s) == [i \in 1..Len(s) |-> s[Len(s) + 1 - i]]
Dig(s, i) == IF i <= Len(s) THEN s[i] ELSE 0
MaxLen(a, b) == IF Len(a) > Len(b) THEN Len(a) ELSE Len(b)

\* least significant digit first
RECURSIVE AddLsd(_, _, _, _)
AddLsd(a, b, i, carry) ==
  IF i > MaxLen(a, b) THEN (IF carry = 0 THEN <<>> ELSE << carry >>)
  ELSE LET t == Dig(a, i) + Dig(b, i) + carry IN << t % 10 >> \o AddLsd(a, b, i + 1, t \div 10)
AddMag(a, b) == Strip(Rev(AddLsd(Rev(a), Rev(b), 1, 0)))

\* a >= b
RECURSIVE SubLsd(_, _, _, _)
SubLsd(a, b, i, borrow) ==
  IF i > Len(a) THEN <<>>
  ELSE LET t == Dig(a, i) - Dig(b, i) - borrow
       IN IF t < 0 THEN << t + 10 >> \o SubLsd(a, b, i + 1, 1) ELSE << t >> \o SubLsd(a, b, i + 1, 0)
SubMag(a, b) == Strip(Rev(SubLsd(Rev(a), Rev(b), 1, 0)))

\* magnitude times one digit
RECURSIVE MulDigLsd(_, _, _, _)
MulDigLsd(a, k, i, carry) ==
  IF i > Len(a) THEN (IF carry = 0 THEN <<>> ELSE << carry >>)
  ELSE LET t == a[i] * k + carry IN << t % 10 >> \o MulDigLsd(a, k, i + 1, t \div 10)
MulDig(a, k) == Strip(Rev(MulDigLsd(Rev(a), k, 1, 0)))

RECURSIVE MulAcc(_, _, _)
\* a * b: for every digit of b (most significant first) acc := acc * 10 + a * digit
MulAcc(a, b, acc) ==
  IF b = <<>> THEN acc
  ELSE MulAcc(a, Tail(b), AddMag(IF acc = <<>> THEN <<>> ELSE Append(acc, 0), MulDig(a, Head(b))))
MulMag(a, b) == IF a = <<>> \/ b = <<>> THEN <<>> ELSE MulAcc(a, b, <<>>)

\* long division: << quotient, remainder >>, b # 0
RECURSIVE DivStep(_, _, _, _)
DivStep(a, b, q, r) ==
  IF a = <<>> THEN << Strip(q), r >>
  ELSE LET r1 == Strip(Append(r, Head(a)))
           k == CHOOSE k \in 0..9 : CmpMag(MulDig(b, k), r1) <= 0 /\ (k = 9 \/ CmpMag(MulDig(b, k + 1), r1) > 0)
       IN DivStep(Tail(a), b, Append(q, k), SubMag(r1, MulDig(b, k)))
DivMod(a, b) == DivStep(a, b, <<>>, <<>>)

-----------------------------------------------------------------------------
(* signed *)
Z(neg, d) == [neg |-> neg /\ d # <<>>, d |-> d]
ZOfInt(n) == IF n < 0 THEN Z(TRUE, NatDigits(-n)) ELSE Z(FALSE, NatDigits(n))
ZNeg(x) == Z(~x.neg, x.d)
ZAdd(x, y) ==
  IF x.neg = y.neg THEN Z(x.neg, AddMag(x.d, y.d))
  ELSE LET c == CmpMag(x.d, y.d)
       IN IF c = 0 THEN Z(FALSE, <<>>)
          ELSE IF c > 0 THEN Z(x.neg, SubMag(x.d, y.d)) ELSE Z(y.neg, SubMag(y.d, x.d))
ZSub(x, y) == ZAdd(x, ZNeg(y))
ZMul(x, y) == Z(x.neg # y.neg, MulMag(x.d, y.d))
\* truncated remainder: sign of the dividend (y # 0)
ZRem(x, y) == Z(x.neg, DivMod(x.d, y.d)[2])
ZCmp(x, y) ==
  IF x.neg # y.neg THEN (IF x.neg THEN -1 ELSE 1)
  ELSE IF x.neg THEN -CmpMag(x.d, y.d) ELSE CmpMag(x.d, y.d)

\* does the value fit TLC's integers comfortably?
ZSmall(x) == Len(x.d) <= 9
RECURSIVE MagVal(_, _)
MagVal(d, acc) == IF d = <<>> THEN acc ELSE MagVal(Tail(d), acc * 10 + Head(d))
ZVal(x) == IF x.neg THEN -MagVal(x.d, 0) ELSE MagVal(x.d, 0)
=============================================================================

----------------------------- MODULE JaqOrder -----------------------------
(***************************************************************************)
(* C08: the atoms (every number representation and boundary, strings,      *)
(* arrays, objects differing in insertion order) over which the order      *)
(* axioms are checked, and an implementation-shaped model of jaq's hashing *)
(* (impl Hash for Val / Num in jaq-json) whose coherence with equality is  *)
(* the condition for a hash-indexed object map to be sound.                *)
(***************************************************************************)
EXTENDS JaqLib

Ascii2(s) ==
  CASE s = "1.0" -> << 49, 46, 48 >> [] s = "1e0" -> << 49, 101, 48 >> [] s = "0.0" -> << 48, 46, 48 >>
    [] s = "-0.0" -> << 45, 48, 46, 48 >> [] s = "1.50" -> << 49, 46, 53, 48 >> [] s = "100e-2" -> << 49, 48, 48, 101, 45, 50 >>
D(s) == DecV(Ascii2(s))
Atoms8 ==
  {Null, False, True, IntV(-1), IntV(0), IntV(1), IntV(2),
   FltV(0, 1), NZero, FltV(1, 1), FltV(1, 2), FltV(3, 2), FltV(-1, 1),
   BigV(FALSE, << 0 >>), BigV(FALSE, << 1 >>), BigV(TRUE, << 1 >>), BigV(FALSE, << 2 >>),
   D("1.0"), D("1e0"), D("0.0"), D("-0.0"), D("1.50"), D("100e-2"), Inf, NInf,
   StrV(<<>>), StrV(<< 97 >>), StrV(<< 97, 98 >>), StrV(<< 98 >>), BytesV(<< 97 >>), BytesV(<< 255 >>), StrV(<< -255 >>), StrV(<< 228 >>),
   ArrV(<<>>), ArrV(<< IntV(0) >>), ArrV(<< IntV(1) >>), ArrV(<< IntV(0), IntV(1) >>), ArrV(<< ArrV(<<>>) >>), ArrV(<< FltV(1, 1) >>), ArrV(<< NZero >>),
   ObjV(<<>>), ObjV(<< << StrV(<< 97 >>), IntV(0) >> >>), ObjV(<< << StrV(<< 97 >>), IntV(1) >> >>), ObjV(<< << StrV(<< 98 >>), IntV(0) >> >>),
   ObjV(<< << StrV(<< 97 >>), IntV(0) >>, << StrV(<< 98 >>), IntV(1) >> >>),
   ObjV(<< << StrV(<< 98 >>), IntV(1) >>, << StrV(<< 97 >>), IntV(0) >> >>),
   ObjV(<< << IntV(1), IntV(0) >> >>), ObjV(<< << FltV(1, 1), IntV(0) >> >>), ObjV(<< << StrV(<< 97 >>), FltV(0, 1) >> >>)}

-----------------------------------------------------------------------------
(* C08 on the specification: the order is a total preorder, and an implementation-shaped model of *)
(* jaq's hashing (impl Hash for Val / Num) is coherent with equality - the condition under which  *)
(* a hash-indexed object map is sound.                                                            *)
PairAxioms(a, b) ==
  LET c == Cmp(a, b) IN
    /\ c \in {-1, 0, 1}
    /\ Cmp(b, a) = -c                                   \* totality, antisymmetry up to Eq: exactly one of < == >
    /\ Cmp(a, a) = 0
TripleAxiom(a, b, c) == (Cmp(a, b) <= 0 /\ Cmp(b, c) <= 0) => Cmp(a, c) <= 0

\* jaq hashes integers, big integers and decimal literals as the float they convert to, floats by their bit pattern
RECURSIVE HashClass(_)
HashClass(v) ==
  CASE v.t = "null" -> << "null" >>
    [] v.t = "bool" -> << "bool", v.b >>
    [] v.t \in {"int", "big", "flt"} -> << "num", ((NumP(v) * 1024) \div NumQ(v)), "+" >>
    [] v.t = "nz" -> << "num", 0, "+" >>          \* -0.0 is hashed like 0.0 (since the fix in /repo)
    [] v.t = "dec" -> << "num", ((NumP(v) * 1024) \div NumQ(v)), "+" >>
    [] v.t = "fsp" -> << "num", "nonfinite" >>
    [] v.t \in {"str", "bytes"} -> << "str", BytesOf(v) >>
    [] v.t = "arr" -> << "arr", [i \in 1..Len(v.a) |-> HashClass(v.a[i])] >>
    [] v.t = "obj" -> LET kv == SortKV(v.o) IN << "obj", [i \in 1..Len(kv) |-> << HashClass(kv[i][1]), HashClass(kv[i][2]) >>] >>
HashCoherentPair(a, b) == Eq(a, b) => HashClass(a) = HashClass(b)
=============================================================================

----------------------------- MODULE Trace_Total -----------------------------
(***************************************************************************)
(* The totality contract (property C05) as a trace specification: every    *)
(* computation that was started - compiling a filter text, running a       *)
(* filter, decoding a document - ends by yielding outputs, by a reported   *)
(* error, by a rejection with rendered diagnostics, or by halt.  There is  *)
(* no action for a panic, an abort that is not resource exhaustion, or a   *)
(* kill by a signal: such a record is rejected and reported.               *)
(* A record: {"id", "end": "ok" | "error" | "accepted" | "rejected" |      *)
(*            "halt" | "does not compile" | "hang" | "exhausted" |         *)
(*            "panic" | "died"}                                            *)
(***************************************************************************)
EXTENDS Integers, Sequences, TLC, Json, IOUtils

Rec == ndJsonDeserialize(IOEnv.TRACE)
VARIABLES l, rejected, counts

\* the ways a computation may end; "hang" (cut by the driver) and "exhausted" (stack / memory) are outside the claim
Ends == {"ok", "error", "accepted", "rejected", "halt", "does not compile", "hang", "exhausted"}
Init == l = 1 /\ rejected = 0 /\ counts = [e \in Ends |-> 0]
Next == /\ l <= Len(Rec) /\ l' = l + 1
        /\ IF Rec[l].end \in Ends
           THEN counts' = [counts EXCEPT ![Rec[l].end] = @ + 1] /\ UNCHANGED rejected
           ELSE rejected' = rejected + 1 /\ PrintT(<< "REJECTED", ToJson([line |-> l, rec |-> Rec[l]]) >>) /\ UNCHANGED counts
Spec == Init /\ [][Next]_<< l, rejected, counts >>
Consumed == l = Len(Rec) + 1
Report == Consumed => PrintT(<< "RESULT", ToJson([n |-> Len(Rec), rejected |-> rejected, counts |-> counts]) >>)
=============================================================================

----------------------------- MODULE MC_CliIO -----------------------------
(***************************************************************************)
(* Command-line input and output options (manual, docs/cli.dj): for every  *)
(* subset of the output options x values, and every raw-input option x     *)
(* byte stream, the bytes jaq must write to standard output and its exit   *)
(* status.  One state per case; the vector is replayed at process level.   *)
(***************************************************************************)
EXTENDS JaqCodec, Json

CONSTANT Suite
VARIABLES cs, done

Sp(n) == [i \in 1..n |-> 32]
Indents == {"def", "tab", "0", "1", "3"}
IndOf(i) == CASE i = "def" -> Sp(2) [] i = "tab" -> << 9 >> [] i = "0" -> <<>> [] i = "1" -> Sp(1) [] i = "3" -> Sp(3)
IndArgs(i) == CASE i = "def" -> <<>> [] i = "tab" -> << "--tab" >> [] i = "0" -> << "--indent", "0" >> [] i = "1" -> << "--indent", "1" >> [] i = "3" -> << "--indent", "3" >>

St(s) == StrV(s)
OutVals == {
  << St(<< 97, 10, 98, 34 >>) >>, << St(<<>>), IntV(1) >>, << Null, True >>,
  << ArrV(<< IntV(1), ArrV(<< IntV(2) >>) >>) >>, << ArrV(<<>>), ObjV(<<>>) >>,
  << ObjV(<< << St(<< 98 >>), ObjV(<< << St(<< 100 >>), IntV(3) >>, << St(<< 99 >>), IntV(2) >> >>) >>, << St(<< 97 >>), IntV(1) >> >>) >>,
  << ArrV(<< ObjV(<< << St(<< 97 >>), ArrV(<<>>) >> >>), St(<< 120, 10 >>) >>), FltV(3, 2) >>,
  << St(<< 120, 0, 121 >>), IntV(2) >>, << IntV(7), St(<< 0 >>) >>,
  << St(<< 228, 8364 >>), ArrV(<< St(<< 9, 127, 31 >>) >>) >>
}

RECURSIVE Joined(_, _)
Joined(vals, i) == IF i > Len(vals) THEN <<>> ELSE TextOf(vals[i]) \o << 32 >> \o Joined(vals, i + 1)

HasNul(v) == v.t = "str" /\ \E i \in 1..Len(v.c) : v.c[i] = 0

\* bytes written for the values up to the first one that cannot be written, and the exit status
RECURSIVE OutBytes(_, _, _)
OutBytes(vals, o, i) ==
  IF i > Len(vals) THEN [b |-> <<>>, st |-> 0]
  ELSE LET v == vals[i]
           raw == o.r \/ o.raw0
           pp == [has |-> ~o.c, ind |-> IndOf(o.ind), sort |-> o.S, sep |-> ~o.c]
           body == IF raw /\ v.t = "str" THEN v.c ELSE W(v, pp, 0)
           term == IF o.raw0 THEN << 0 >> ELSE IF o.j THEN <<>> ELSE << 10 >>
       IN IF o.raw0 /\ HasNul(v) THEN [b |-> <<>>, st |-> 2]
          ELSE LET rest == OutBytes(vals, o, i + 1) IN [b |-> body \o term \o rest.b, st |-> rest.st]

OutOpts == {[c |-> c, r |-> r, j |-> j, S |-> s, ind |-> i, raw0 |-> z] :
              c \in BOOLEAN, r \in BOOLEAN, j \in BOOLEAN, s \in BOOLEAN, i \in Indents, z \in BOOLEAN} \ {o \in [c : BOOLEAN, r : BOOLEAN, j : BOOLEAN, S : BOOLEAN, ind : Indents, raw0 : BOOLEAN] : o.r /\ o.raw0}
OutArgs(o) == (IF o.c THEN << "-c" >> ELSE <<>>) \o (IF o.r THEN << "-r" >> ELSE <<>>) \o (IF o.j THEN << "-j" >> ELSE <<>>)
              \o (IF o.S THEN << "-S" >> ELSE <<>>) \o IndArgs(o.ind) \o (IF o.raw0 THEN << "--raw-output0" >> ELSE <<>>)

\* --- raw input -------------------------------------------------------------------------------
RECURSIVE SplitOn(_, _, _)
\* pieces of s separated by byte d (a separator at the very end does not start a new piece)
SplitOn(s, d, acc) ==
  IF s = <<>> THEN (IF acc = <<>> THEN <<>> ELSE << acc >>)
  ELSE IF Head(s) = d THEN << acc >> \o SplitOn(Tail(s), d, <<>>)
  ELSE SplitOn(Tail(s), d, Append(acc, Head(s)))
Streams == {<< 72, 10, 87 >>, << 97, 10 >>, <<>>, << 10 >>, << 97, 0, 0 >>, << 97, 0, 98 >>, << 97, 0 >>, << 120, 10, 121, 0, 122 >>, << 10, 10 >>, << 0, 0 >>, << 97, 10, 10, 98, 10 >>}
InModes == {"R", "Rs", "raw0", "raw0s"}
InVals(s, m) ==
  CASE m = "R" -> [i \in 1..Len(SplitOn(s, 10, <<>>)) |-> St(SplitOn(s, 10, <<>>)[i])]
    [] m = "Rs" -> << St(s) >>
    [] m = "raw0" -> [i \in 1..Len(SplitOn(s, 0, <<>>)) |-> St(SplitOn(s, 0, <<>>)[i])]
    [] m = "raw0s" -> << ArrV([i \in 1..Len(SplitOn(s, 0, <<>>)) |-> St(SplitOn(s, 0, <<>>)[i])]) >>
InArgs(m) == CASE m = "R" -> << "-R" >> [] m = "Rs" -> << "-R", "-s" >> [] m = "raw0" -> << "--raw-input0" >> [] m = "raw0s" -> << "--raw-input0", "-s" >>

Cases ==
  CASE Suite = "output" -> {[args |-> OutArgs(o) \o << "." >>, stdin |-> Joined(vals, 1), viafile |-> FALSE,
                             out |-> OutBytes(vals, o, 1).b, status |-> OutBytes(vals, o, 1).st] :
                              o \in {oo \in OutOpts : TRUE}, vals \in OutVals} \ {c \in {[args |-> OutArgs(o) \o << "." >>, stdin |-> Joined(vals, 1), viafile |-> FALSE,
                             out |-> OutBytes(vals, o, 1).b, status |-> OutBytes(vals, o, 1).st] :
                              \* -j without -r: the manual does not say whether strings are written raw (jq: yes)
                              o \in {oo \in OutOpts : oo.j /\ ~oo.r /\ ~oo.raw0}, vals \in {vv \in OutVals : \E i \in 1..Len(vv) : vv[i].t = "str"}} : TRUE}
    [] Suite = "input" -> {[args |-> << "-c" >> \o InArgs(m) \o << "." >>, stdin |-> s, viafile |-> f,
                            out |-> OutBytes(InVals(s, m), [c |-> TRUE, r |-> FALSE, j |-> FALSE, S |-> FALSE, ind |-> "def", raw0 |-> FALSE], 1).b, status |-> 0] :
                             s \in Streams, m \in InModes, f \in BOOLEAN}

JV == {<< Null >>, << IntV(-7), FltV(3, 2) >>, << StrV(<< 34, 92, 10, 228, 31 >>) >>, << ArrV(<<>>) >>, << ObjV(<<>>) >>,
       << ArrV(<< IntV(1), ArrV(<< ArrV(<<>>), ObjV(<<>>) >>), StrV(<< 97 >>) >>) >>,
       << ObjV(<< << StrV(<< 98 >>), ArrV(<< IntV(1), ObjV(<< << StrV(<< 122 >>), Null >>, << StrV(<< 97 >>), True >> >>) >>) >>, << StrV(<< 97 >>), ObjV(<<>>) >> >>) >>,
       << DecV(<< 49, 46, 49, 48 >>), BigV(FALSE, << 1,8,4,4,6,7,4,4,0,7,3,7,0,9,5,5,1,6,1,6 >>) >>}
JsonCases == {[args |-> OutArgs(o) \o << "." >>, stdin |-> Joined(vals, 1), viafile |-> FALSE, out |-> OutBytes(vals, o, 1).b, status |-> 0,
               back |-> OutBytes(vals, [c |-> TRUE, r |-> FALSE, j |-> FALSE, S |-> FALSE, ind |-> "def", raw0 |-> FALSE], 1).b] :
                o \in {oo \in OutOpts : ~oo.r /\ ~oo.j /\ ~oo.raw0 /\ ~oo.S}, vals \in JV}
Init == cs \in (IF Suite = "json" THEN JsonCases ELSE Cases) /\ done = FALSE
Emit == ~done /\ done' = TRUE /\ UNCHANGED cs /\ PrintT(<< "VEC", ToJson(cs) >>)
Spec == Init /\ [][Emit]_<< cs, done >>

\* what is written is, value by value, independent of what follows: a prefix property of the writer
TypeOK == cs.status \in {0, 2}
=============================================================================

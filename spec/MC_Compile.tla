----------------------------- MODULE MC_Compile -----------------------------
(***************************************************************************)
(* C04, design: for every nest of MC_Tail`s generator, the machine of      *)
(* JaqCompile run on the compiler`s classification keeps a bounded number  *)
(* of frames and never loses a thrown tail call; the non-tail controls     *)
(* exceed the bound (so the bound means something).  Emit writes the       *)
(* classification of every nest for comparison with the real compiler.     *)
(***************************************************************************)
EXTENDS JaqCompile, Json

CONSTANTS Suite
VARIABLES done

Step == TBin("+", TId, TNum(1))
N == TVar("n")
LtN == TBin("<", TId, N)
GeN == TBin(">=", TId, N)
Fe(xs, x, init, upd, proj) == [k |-> "fold", name |-> "foreach", xs |-> xs, pat |-> [p |-> "var", x |-> x], init |-> init, upd |-> upd, proj |-> proj]
Loop(tp, c) ==
  CASE tp = "pipe" -> TIf(LtN, TPipe(Step, c), TId)
    [] tp = "comma" -> TIf(LtN, TComma(TC0("empty"), TPipe(Step, c)), TId)
    [] tp = "alt" -> TBin("//", TIf(LtN, TC0("empty"), TId), TPipe(Step, c))
    [] tp = "as" -> TIf(LtN, TAs(Step, "x", TPipe(TVar("x"), c)), TId)
    [] tp = "else" -> TIf(GeN, TId, TPipe(Step, c))
    [] tp = "localdef" -> TIf(LtN, TDefs(<< TDef("st", <<>>, Step) >>, TPipe(TC0("st"), c)), TId)
    [] tp = "foreach" -> Fe(TNum(1), "x", TId, Step, TIf(LtN, c, TId))
NonTail(tp, c) ==
  CASE tp = "plus" -> TIf(LtN, TBin("+", TPipe(Step, c), TNum(0)), TId)
    [] tp = "left-pipe" -> TIf(LtN, TPipe(TPipe(Step, c), TId), TId)
    [] tp = "arr" -> TIf(LtN, TPath(TArr(TPipe(Step, c)), << PIdx(TNum(0)) >>), TId)
TailPos == {"pipe", "comma", "alt", "as", "else", "localdef", "foreach"}
D1(name, params, body) == << TDef(name, params, body) >>
On0(t) == TPipe(TNum(0), t)
Nest(kind, L(_)) ==
  CASE kind = "self" -> TDefs(D1("f", <<>>, L(TC0("f"))), On0(TC0("f")))
    [] kind = "parent" -> TDefs(D1("f", <<>>, TDefs(D1("g", <<>>, L(TC0("f"))), TC0("g"))), On0(TC0("f")))
    [] kind = "grandparent" -> TDefs(D1("f", <<>>, TDefs(D1("g", <<>>, TDefs(D1("h", <<>>, L(TC0("f"))), TC0("h"))), TC0("g"))), On0(TC0("f")))
    [] kind = "sibling" -> TDefs(D1("f", <<>>, TDefs(<< TDef("g", <<>>, TC0("f")), TDef("h", <<>>, L(TC0("g"))) >>, TC0("h"))), On0(TC0("f")))
    [] kind = "uncle" -> TDefs(D1("f", <<>>, TDefs(D1("g", <<>>, TDefs(D1("h", <<>>, L(TC0("g"))), TC0("h"))), TC0("g"))), On0(TC0("f")))
    [] kind = "alternate" -> TDefs(D1("f", <<>>, TDefs(D1("g", <<>>, TIf(TBin("==", TBin("%", TId, TNum(2)), TNum(0)), L(TC0("g")), L(TC0("f")))), TC0("g"))), On0(TC0("f")))
    [] kind = "var-arg" -> TDefs(D1("f", << PVv("a") >>, L(TC1("f", TVar("a")))), On0(TC1("f", TNum(1))))
    [] kind = "fil-arg" -> TDefs(D1("f", << PF("s") >>, L(TC1("f", TC0("s")))), On0(TC1("f", Step)))
    [] kind = "two-siblings" ->   \* main body calls a later sibling that tail-calls an earlier, self-recursive one
         TDefs(<< TDef("g", <<>>, L(TC0("g"))), TDef("h", <<>>, TC0("g")) >>, On0(TC0("h")))
NestKinds == {"self", "parent", "grandparent", "sibling", "uncle", "alternate", "var-arg", "fil-arg", "two-siblings"}
Progs ==
  IF Suite = "tail" THEN {[name |-> k \o "/" \o tp, prog |-> TC1("last", Nest(k, LAMBDA c : Loop(tp, c))), positive |-> TRUE] : k \in NestKinds, tp \in TailPos}
  ELSE {[name |-> "control/" \o k \o "/" \o tp, prog |-> TC1("last", Nest(k, LAMBDA c : NonTail(tp, c))), positive |-> FALSE] : k \in {"self", "parent"}, tp \in {"plus", "left-pipe", "arr"}}

VARIABLE pname
Init == \E p \in Progs : MachInit(p.prog) /\ pname = p.name /\ done = FALSE
Emit == ~done /\ done' = TRUE /\ UNCHANGED << mvars, pname >> /\ Len(frames) = 1
        /\ PrintT(<< "VEC", ToJson([name |-> pname, prog |-> prog, calls |-> calls, tailok |-> AllRecCallsTail(prog)]) >>)
\* behaviours are cut at a depth beyond the bound: deeper states add nothing
Next == (MachNext /\ Len(frames) <= 2 * NumDefs + 3 /\ UNCHANGED << done, pname >>) \/ Emit
Spec == Init /\ [][Next]_<< mvars, done, pname >>
=============================================================================

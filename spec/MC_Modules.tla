----------------------------- MODULE MC_Modules -----------------------------
(***************************************************************************)
(* C16: module graphs.  The loader state machine of JaqModules runs on     *)
(* every case; when it is done, one replay vector is written that holds    *)
(* the files, the steps of the loader and, for every probe (a main filter),*)
(* the outcome the inlined single program has under JaqSem.                *)
(* Suites:                                                                 *)
(*   graph   all DAGs over main and the modules a, b (, c): every edge is  *)
(*           absent, an include or an import; name clashes, shadowing,     *)
(*           data imports, global variables, calls under binders           *)
(*   cyclic  the same with back edges and self loops                       *)
(*   search  one module placed in every subset of the candidate            *)
(*           directories, for several directives and library paths         *)
(***************************************************************************)
EXTENDS JaqModules, Json

CONSTANTS Suite, Size

Sx(str) == TStr(Ascii(str))
TQ(q, f, args) == [k |-> "qcall", q |-> q, f |-> f, args |-> args]
Lib == << "w", "lib" >>
LibL == << SP("rel", << "lib" >>) >>
Commas(ts) == LET RECURSIVE C(_) C(i) == IF i = Len(ts) THEN ts[i] ELSE TComma(ts[i], C(i + 1)) IN C(1)

ModNames == IF Size = 1 THEN << "a", "b" >> ELSE << "a", "b", "c" >>
Nodes == << "main" >> \o ModNames
Kinds == {"none", "inc", "imp"}
FwdPairs == {<< i, j >> \in (1..Len(Nodes)) \X (2..Len(Nodes)) : i < j}
BackPairs == {<< i, j >> \in (2..Len(Nodes)) \X (2..Len(Nodes)) : i >= j}

\* directives of node i in graph g (g: pair -> kind), targets in the given order
DepDirs(g, i, order) ==
  LET ts == SelectSeq(order, LAMBDA j : << i, j >> \in DOMAIN g /\ g[<< i, j >>] # "none") IN
  [n \in 1..Len(ts) |-> Dir(g[<< i, ts[n] >>], <<>>, Nodes[ts[n]], "", IF g[<< i, ts[n] >>] = "imp" THEN Nodes[ts[n]] ELSE "", <<>>)]
DataDirsFor(m) == IF m = "b" THEN << Dir("dat", <<>>, "d", "", "d", <<>>) >>
                  ELSE IF m = "c" THEN << Dir("dat", <<>>, "d", "", "d", <<>>), Dir("dat", <<>>, "e", "", "e", <<>>) >> ELSE <<>>
DepCalls(g, i, order) ==
  LET ts == SelectSeq(order, LAMBDA j : << i, j >> \in DOMAIN g /\ g[<< i, j >>] # "none") IN
  [n \in 1..Len(ts) |-> IF g[<< i, ts[n] >>] = "inc" THEN TC0("u" \o Nodes[ts[n]])
                        ELSE TComma(TQ(Nodes[ts[n]], "u" \o Nodes[ts[n]], <<>>), TQ(Nodes[ts[n]], "f", <<>>))]
ModDefs(g, i, order) ==
  LET m == Nodes[i] IN
  << TDef("f", <<>>, Sx(m \o ".f")),
     TDef("u" \o m, <<>>, Sx("u" \o m)),
     TDef("g", <<>>, TArr(Commas(<< TC0("f") >> \o DepCalls(g, i, order)))),
     TDef("f", <<>>, Sx(m \o ".f2")),
     TDef("k", << PVv("p"), PF("q") >>, TAs(TVar("p"), "z", TArr(Commas(<< TC0("q"), TVar("z"), TC0("f"), TC0("g") >>)))),
     \* names of the standard library (a definition and a native one): explicit includes shadow them
     TDef("values", <<>>, Sx(m \o ".values")),
     TDef("length", <<>>, Sx(m \o ".length")),
     TDef("h", <<>>, TArr(Commas(<< TC0("values"), TC0("length"), TC0("not") >>))) >>
  \o (IF m = "a" THEN << TDef("gv", <<>>, TArr(TComma(TVar("v"), TVar("w")))) >> ELSE <<>>)
  \o (IF m = "b" THEN << TDef("dv", <<>>, TVar("d")) >> ELSE <<>>)
  \o (IF m = "c" THEN << TDef("dv", <<>>, TArr(TComma(TVar("d"), TVar("e")))) >> ELSE <<>>)

Order(rev) == IF rev THEN [n \in 1..Len(Nodes) |-> Len(Nodes) + 1 - n] ELSE [n \in 1..Len(Nodes) |-> n]
GraphCase(g, rev, md) ==
  [files |-> {Lib \o << m \o ".jq" >> : m \in {ModNames[i] : i \in 1..Len(ModNames)}} \cup {Lib \o << "d.json" >>, Lib \o << "e.json" >>},
   mod |-> {[path |-> Lib \o << Nodes[i] \o ".jq" >>, dirs |-> DepDirs(g, i, Order(FALSE)) \o DataDirsFor(Nodes[i]), defs |-> ModDefs(g, i, Order(FALSE))] : i \in 2..Len(Nodes)},
   data |-> {[path |-> Lib \o << "d.json" >>, vals |-> << IntV(1), IntV(2) >>], [path |-> Lib \o << "e.json" >>, vals |-> << StrV(Ascii("e")) >>]},
   L |-> LibL,
   main |-> [dir |-> Cwd, file |-> FALSE, dirs |-> DepDirs(g, 1, Order(rev)) \o (IF md THEN << Dir("dat", <<>>, "e", "", "d", <<>>) >> ELSE <<>>),
             defs |-> << TDef("f", <<>>, Sx("main.f")), TDef("umain", <<>>, Sx("umain")) >>],
   globals |-> << << "v", StrV(Ascii("gv")) >>, << "w", IntV(7) >> >>]

Under(t) == TAs(TNum(3), "x", TAs(TNum(4), "y", TArr(Commas(<< TVar("x"), t, TVar("y") >>))))
Probes ==
  << TC0("g"), TC0("f"), TC0("ua"), TC0("ub"), TC0("umain"), TQ("a", "g", <<>>), TQ("b", "g", <<>>), TQ("a", "f", <<>>), TQ("b", "ub", <<>>), TQ("main", "f", <<>>),
     Under(TQ("a", "k", << TVar("y"), TVar("x") >>)), Under(TCall("k", << TVar("y"), TVar("x") >>)), Under(TQ("b", "dv", <<>>)),
     TVar("d"), TArr(TComma(TVar("v"), TVar("w"))), TQ("b", "dv", <<>>), TC0("dv"), TQ("a", "gv", <<>>), TC0("gv"), Under(TC0("gv")), TVar("e"),
     TArr(TC0("values")), TC0("length"), TC0("h"), TQ("a", "h", <<>>), TQ("b", "values", <<>>), TArr(TPipe(TArr(Commas(<< TNum(1), TC0("null") >>)), TC1("map", TC0("values")))) >>
  \o (IF Size > 1 THEN << TC0("uc"), TQ("c", "g", <<>>), TQ("c", "dv", <<>>), Under(TQ("c", "dv", <<>>)), Under(TQ("c", "k", << TVar("x"), TQ("c", "dv", <<>>) >>)) >> ELSE <<>>)

GraphCases == {GraphCase(g, rev, md) : g \in [FwdPairs -> Kinds], rev \in BOOLEAN, md \in BOOLEAN}
CyclicCases == {GraphCase(g, FALSE, FALSE) : g \in {h \in [FwdPairs \cup BackPairs -> Kinds] : \E p \in BackPairs : h[p] # "none"}}

\* negative cases: a module must not see definitions or variables of the module that loads it, nor variables around the call site
LeakCase(body, maindefs, moddef) ==
  [files |-> {Lib \o << "a.jq" >>}, mod |-> {[path |-> Lib \o << "a.jq" >>, dirs |-> <<>>, defs |-> << TDef("ua", <<>>, Sx("ua")), moddef >>]}, data |-> {}, L |-> LibL,
   main |-> [dir |-> Cwd, file |-> FALSE, dirs |-> << Dir("imp", <<>>, "a", "", "a", <<>>) >>, defs |-> maindefs], globals |-> << << "v", IntV(1) >> >>, probes |-> << body >>]
LeakCases ==
  {LeakCase(TQ("a", "l", <<>>), << TDef("umain", <<>>, Sx("umain")) >>, TDef("l", <<>>, TC0("umain"))),
   LeakCase(TAs(TNum(1), "x", TQ("a", "l", <<>>)), <<>>, TDef("l", <<>>, TVar("x"))),
   LeakCase(TAs(TNum(1), "x", TQ("a", "l", <<>>)), <<>>, TDef("l", <<>>, TVar("v"))),
   LeakCase(TQ("a", "l", <<>>), <<>>, TDef("l", <<>>, TQ("a", "ua", <<>>))),
   LeakCase(TQ("a", "l", <<>>), <<>>, TDef("l", <<>>, TC0("ua"))),
   LeakCase(TQ("a", "l", << TNum(5) >>), <<>>, TDef("l", << PVv("x") >>, TVar("x"))),
   LeakCase(TQ("a", "l", <<>>), <<>>, TDef("l", <<>>, TC0("l2")))}

\* search order: module m (and variants) in every subset of the candidate directories
SearchDirs == << << "w", "s1" >>, << "h", "hs" >>, << "o", "os" >>, << "w", "l1" >>, << "h", "hl" >>, << "o", "lib" >>, << "w" >>, << "w", "p" >>, << "w", "p", "s1" >> >>
Placements == IF Size = 1 THEN {P \in SUBSET (1..Len(SearchDirs)) : Cardinality(P) <= 2} ELSE SUBSET (1..Len(SearchDirs))
MetaVariants == {<< SP("rel", << "s1" >>), SP("home", << "hs" >>), SP("origin", << "os" >>) >>,
                 << SP("origin", << "os" >>), SP("rel", << "." >>) >>,
                 << SP("rel", << "..", "w", "s1" >>) >>,
                 <<>>}
LVariants == {<< SP("rel", << "l1" >>), SP("home", << "hl" >>), SP("origin", << "..", "lib" >>) >>, << SP("home", << "hl" >>), SP("rel", << "l1" >>) >>, << SP("rel", << "." >>) >>}
MDef(c) == TDef("f", <<>>, TArr(Commas([i \in 1..Len(c) |-> Sx(c[i])])))
SearchCase(P, meta, L, fromfile) ==
  [files |-> {SearchDirs[i] \o << "m.jq" >> : i \in P},
   mod |-> {[path |-> SearchDirs[i] \o << "m.jq" >>, dirs |-> <<>>, defs |-> << MDef(SearchDirs[i]) >>] : i \in P},
   data |-> {}, L |-> L,
   main |-> [dir |-> IF fromfile THEN << "w", "p" >> ELSE Cwd, file |-> fromfile, dirs |-> << Dir("inc", <<>>, "m", "", "", meta) >>, defs |-> <<>>],
   globals |-> <<>>, probes |-> << TC0("f") >>]
SearchCases == {SearchCase(P, meta, L, ff) : P \in Placements, meta \in MetaVariants, L \in LVariants, ff \in BOOLEAN}

\* extensions, sub-directories, absolute paths, default library paths, data files, a nested module with its own relative search path
ExtFiles == {<< "w", "lib", "m.jq" >>, << "w", "lib", "m.x" >>, << "w", "lib", "m.x.jq" >>, << "w", "lib", "sub", "m.jq" >>, << "w", "lib", "m.json" >>, << "w", "lib", "m.x.json" >>,
             << "w", "lib", "m" >>, << "w", "lib", "m.z" >>, << "h", ".jq", "m.jq" >>, << "o", "lib", "jq", "m.jq" >>, << "o", "lib", "m.jq" >>, << "w", "m.jq" >>, << "w", "lib", "n.jq" >>, << "w", "x", "m.jq" >>}
ExtCase(dirs, L, probes, extra) ==
  [files |-> ExtFiles,
   mod |-> {[path |-> p, dirs |-> IF p = << "w", "lib", "n.jq" >> THEN extra ELSE <<>>,
             defs |-> IF p = << "w", "lib", "n.jq" >> THEN << TDef("nf", <<>>, TC0("f")) >> ELSE << MDef(p) >>] : p \in {q \in ExtFiles : q[Len(q)] \notin {"m.json", "m.x.json", "m.z"}}},
   data |-> {[path |-> p, vals |-> << StrV(Ascii(p[Len(p)])) >>] : p \in {q \in ExtFiles : q[Len(q)] \in {"m.json", "m.x.json", "m.z"}}},
   L |-> L, main |-> [dir |-> Cwd, file |-> FALSE, dirs |-> dirs, defs |-> <<>>], globals |-> <<>>, probes |-> probes]
ExtCases ==
  {ExtCase(<< Dir("inc", <<>>, "m", e, "", <<>>) >>, LibL, << TC0("f") >>, <<>>) : e \in {"", "jq", "x", "y"}}
  \cup {ExtCase(<< Dir("inc", << "sub" >>, "m", "", "", <<>>) >>, LibL, << TC0("f") >>, <<>>),
        ExtCase(<< Dir("inc", << "sub", ".." >>, "m", "", "", <<>>) >>, LibL, << TC0("f") >>, <<>>),
        ExtCase(<< Dir("inc", << ".." >>, "m", "", "", <<>>) >>, LibL, << TC0("f") >>, <<>>),
        ExtCase(<< [Dir("inc", << "w", "lib" >>, "m", "", "", <<>>) EXCEPT !.abs = TRUE] >>, LibL, << TC0("f") >>, <<>>),
        ExtCase(<< Dir("inc", <<>>, "m", "", "", <<>>) >>, <<>>, << TC0("f") >>, <<>>),
        ExtCase(<< Dir("inc", <<>>, "zz", "", "", <<>>) >>, LibL, << TNum(1) >>, <<>>)}
  \cup {ExtCase(<< Dir("dat", <<>>, "m", e, "d", <<>>) >>, LibL, << TVar("d") >>, <<>>) : e \in {"", "json", "z", "y"}}
  \cup {ExtCase(<< Dir("imp", <<>>, "n", "", "n", <<>>) >>, LibL, << TQ("n", "nf", <<>>) >>, << Dir("inc", <<>>, "m", "", "", s) >>) :
          s \in {<<>>, << SP("rel", << "." >>) >>, << SP("rel", << "..", "x" >>) >>, << SP("rel", << "sub" >>) >>, << SP("rel", << "nowhere" >>), SP("rel", << ".." >>) >>}}

\* the same relative data path, written the same way in two modules of different directories, names two different files
DataCases ==
  LET here == << SP("rel", << "." >>) >>
      getd == << TDef("get", <<>>, TVar("d")) >>
  IN {[files |-> {<< "w", "lib", "a.jq" >>, << "w", "lib", "sub", "b.jq" >>, << "w", "lib", "d.json" >>, << "w", "lib", "sub", "d.json" >>},
       mod |-> {[path |-> << "w", "lib", "a.jq" >>, dirs |-> << Dir("dat", <<>>, "d", "", "d", here) >>, defs |-> getd],
                [path |-> << "w", "lib", "sub", "b.jq" >>, dirs |-> << Dir("dat", <<>>, "d", "", "d", here) >>, defs |-> getd]},
       data |-> {[path |-> << "w", "lib", "d.json" >>, vals |-> << IntV(1) >>], [path |-> << "w", "lib", "sub", "d.json" >>, vals |-> << IntV(2), StrV(Ascii("two")) >>]},
       L |-> LibL,
       main |-> [dir |-> Cwd, file |-> FALSE, dirs |-> ds, defs |-> <<>>], globals |-> <<>>,
       probes |-> << TArr(TComma(TQ("a", "get", <<>>), TQ("b", "get", <<>>))), TQ("b", "get", <<>>), TQ("a", "get", <<>>) >>] :
      ds \in {<< Dir("imp", <<>>, "a", "", "a", <<>>), Dir("imp", << "sub" >>, "b", "", "b", <<>>) >>,
              << Dir("imp", << "sub" >>, "b", "", "b", <<>>), Dir("imp", <<>>, "a", "", "a", <<>>) >>}}

Cases == CASE Suite = "graph" -> {[c EXCEPT !.main = [c.main EXCEPT !.dir = Cwd]] @@ [probes |-> Probes] : c \in GraphCases}
           [] Suite = "cyclic" -> {c @@ [probes |-> << TC0("f"), TNum(1) >>] : c \in CyclicCases}
           [] Suite = "leak" -> LeakCases
           [] Suite = "search" -> SearchCases
           [] Suite = "ext" -> ExtCases \cup DataCases

VARIABLE done
vars == << lvars, done >>
Init == \E c \in Cases : LoadInit(c) /\ done = FALSE

Emit ==
  /\ phase = "done" /\ ~done /\ done' = TRUE /\ UNCHANGED lvars
  /\ PrintT(<< "VEC", ToJson([files |-> cs.files, mod |-> cs.mod, data |-> cs.data, L |-> cs.L, main |-> cs.main, globals |-> cs.globals,
                               ev |-> ev, nmods |-> Len(mods),
                               probes |-> [p \in 1..Len(cs.probes) |-> [body |-> cs.probes[p], out |-> Outcome(cs.probes[p])]]]) >>)
Next == (LoadNext /\ UNCHANGED done) \/ Emit
Spec == Init /\ [][Next]_vars
FairSpec == Spec /\ WF_vars(LoadNext /\ UNCHANGED done)
=============================================================================

------------------------------ MODULE MC_Time ------------------------------
(***************************************************************************)
(* C20: the date and time filters against JaqTime, over an edge set of     *)
(* Unix times (year boundaries, leap days, century rules, negative times,  *)
(* powers of two, range limits), fractional times, broken-down arrays over *)
(* edge field values and ISO 8601 texts with offsets.  Every case is one   *)
(* initial state; Emit writes the replay vector.                           *)
(***************************************************************************)
EXTENDS JaqTime, Json

CONSTANTS Suite, Size
VARIABLES cs, done

Case(prog, vars, expect) == [prog |-> prog, vars |-> vars, input |-> Null, expect |-> expect]
OkS(v) == [o |-> << v >>, e |-> [k |-> "ok"]]
ErrAny == [o |-> <<>>, e |-> [k |-> "err", v |-> IErr]]
NoVars == <<>>
StrV2T(c) == TStr(c)
\* format strings are written with ~ for the percent sign (a percent sign in a string literal upsets the parser)
Fmt(s) == LET a == Ascii(s) IN [i \in 1..Len(a) |-> IF a[i] = 126 THEN 37 ELSE a[i]]
Lit(z) == [k |-> "bignum", neg |-> z.neg, d |-> Strip(z.d)]
LitF(z, fr) == [k |-> "bignum", neg |-> z.neg, d |-> Strip(z.d), fr |-> fr]     \* |z|.fr with the sign of z
P2(a, b) == TPipe(a, b)
P3(a, b, c) == TPipe(a, TPipe(b, c))
P4(a, b, c, d) == TPipe(a, TPipe(b, TPipe(c, d)))
\* "accepted with this answer, or rejected": try (f == w) catch true
MayBe(f, w) == Case(TTry(TBin("==", f, TVar("w")), TC0("true")), << << "w", w >> >>, OkS(True))

Years == IF Size = 1 THEN {-9999, -9998, -4713, -400, -100, -1, 0, 1, 4, 100, 1600, 1900, 1969, 1970, 1972, 2000, 2038, 2100, 9998, 9999}
         ELSE {-9999, -9998, -9997, -4713, -401, -400, -399, -101, -100, -99, -5, -4, -1, 0, 1, 3, 4, 99, 100, 399, 400, 1582, 1600, 1700, 1800, 1899, 1900, 1901,
               1968, 1969, 1970, 1971, 1972, 1999, 2000, 2001, 2037, 2038, 2099, 2100, 2400, 9996, 9998, 9999}
MDs(y) == {<< 1, 1 >>, << 1, 31 >>, << 2, 28 >>, << 3, 1 >>, << 6, 30 >>, << 12, 31 >>} \cup (IF IsLeap(y) THEN {<< 2, 29 >>} ELSE {})
Sods == IF Size = 1 THEN {0, 86399} ELSE {0, 1, 3599, 43200, 86399}
CivilEpochs == {JoinEpoch(DaysFromCivil(y, md[1], md[2]), sod) : y \in Years, md \in UNION {MDs(yy) : yy \in Years}, sod \in Sods}
\* powers of two and range limits, with neighbours
Dg(s) == [i \in 1..Len(s) |-> s[i] - 48]
SpecialMags == {Dg(Ascii("2147483647")), Dg(Ascii("2147483648")), Dg(Ascii("4294967296")), Dg(Ascii("9007199254740992")), Dg(Ascii("9007199254740993")),
                Dg(Ascii("9223372036854775807")), Dg(Ascii("9223372036854775808")), Dg(Ascii("9223372036854775809")), Dg(Ascii("18446744073709551616")),
                Dg(Ascii("18446744073710")), Dg(Ascii("18446744073709")), Dg(Ascii("9223372036855")), Dg(Ascii("9223372036854")), Dg(Ascii("10000000000000")),
                Dg(Ascii("1180591620717411303424")), Dg(Ascii("253402300799")), Dg(Ascii("253402300800")), Dg(Ascii("253370764800")), Dg(Ascii("253370764799")),
                Dg(Ascii("377705116800")), Dg(Ascii("377705116801")), Dg(Ascii("377673580800")), Dg(Ascii("377673580801")), Dg(Ascii("315569520000")), Dg(Ascii("1")), <<>>}
Specials == {Z(neg, m) : neg \in BOOLEAN, m \in SpecialMags}
Epochs == CivilEpochs \cup Specials

F1 == TStr(Fmt("~Y-~m-~dT~H:~M:~SZ"))
F2 == TStr(Fmt("~d/~m/~Y ~H.~M.~S"))
F3 == TStr(Fmt("~j ~Y ~T"))
Fmts == {F1, F2, F3}

EpochCases(z) ==
  LET cl == EpochClass(z) lit == Lit(z) IN
  CASE cl = "no" ->
         {Case(P2(lit, TC0("gmtime")), NoVars, ErrAny), Case(P2(lit, TC0("todate")), NoVars, ErrAny), Case(P2(lit, TC1("strftime", F1)), NoVars, ErrAny)}
    [] cl = "may" ->
         {MayBe(P2(lit, TC0("gmtime")), Gmtime(z)), MayBe(P3(lit, TC0("gmtime"), TC0("mktime")), ZToVal(z)), MayBe(P3(lit, TC0("todate"), TC0("fromdate")), ZToVal(z))}
    [] cl = "must" ->
         LET s == SplitEpoch(z) b == Bdt(s[2], s[3]) IN
         {Case(P2(lit, TC0("gmtime")), NoVars, OkS(Gmtime(z))),
          Case(P3(lit, TC0("gmtime"), TC0("mktime")), NoVars, OkS(ZToVal(z))),
          Case(P3(lit, TC0("todate"), TC0("fromdate")), NoVars, OkS(ZToVal(z))),
          Case(P3(lit, TC0("todateiso8601"), TC0("fromdateiso8601")), NoVars, OkS(ZToVal(z)))}
         \cup {Case(P4(lit, TC1("strftime", f), TC1("strptime", f), TC0("mktime")), NoVars, OkS(ZToVal(z))) : f \in Fmts}
         \cup {Case(P3(lit, TC1("strftime", f), TC1("strptime", f)), NoVars, OkS(Gmtime(z))) : f \in {F1}}
         \cup (IF b.y >= 0 THEN {Case(P2(lit, TC0("todate")), NoVars, OkS(StrV(Todate(z)))),
                                 Case(P2(StrV2T(Todate(z)), TC0("fromdate")), NoVars, OkS(ZToVal(z)))} ELSE {})
         \cup (IF b.y >= 1000 THEN {Case(P2(lit, TC1("strftime", F1)), NoVars, OkS(StrV(Todate(z)))),
                                    Case(P2(TVar("a"), TC1("strftime", F1)), << << "a", Gmtime(z) >> >>, OkS(StrV(Todate(z))))} ELSE {})

\* broken-down arrays over edge field values
\* including values that are valid modulo 2^8 / 2^16 (a narrowing conversion must not wrap them into range)
FieldVals == [y |-> {-10000, -9999, -9998, -1, 0, 1900, 1969, 1970, 2000, 2001, 9998, 9999, 10000, 67536, -63536, 32768},
              mo |-> {-1, 0, 1, 11, 12, 127, 128, 255, 256, 267, -255}, d |-> {-1, 0, 1, 28, 29, 30, 31, 32, 127, 200, 257, 284, -255},
              h |-> {-1, 0, 23, 24, 256, 268, -250}, mi |-> {-1, 0, 59, 60, 256, 300, -226}, s |-> {-1, 0, 59, 61, 127, 128, 256, 300, -250}]
Base == [y |-> 2000, mo |-> 1, d |-> 28, h |-> 12, mi |-> 30, s |-> 15]
\* vary one or two fields at a time
Arrays == {[Base EXCEPT ![f] = v] : f \in {"y", "mo", "d", "h", "mi", "s"}, v \in UNION {FieldVals[g] : g \in DOMAIN FieldVals}}
ArraysOk == {a \in {[Base EXCEPT ![f] = v] : f \in DOMAIN FieldVals, v \in UNION {FieldVals[g] : g \in DOMAIN FieldVals}} : a[CHOOSE f \in DOMAIN FieldVals : TRUE] = a[CHOOSE f \in DOMAIN FieldVals : TRUE]}
OneField == UNION {{[Base EXCEPT ![f] = v] : v \in FieldVals[f]} : f \in DOMAIN FieldVals}
TwoFields == UNION {{[Base EXCEPT ![f] = v, ![g] = w] : v \in FieldVals[f], w \in FieldVals[g]} : f \in {"y", "mo"}, g \in {"mo", "d"}}
ArrOf(a, extra) == ArrV(<< IntV(a.y), IntV(a.mo), IntV(a.d), IntV(a.h), IntV(a.mi), IntV(a.s) >> \o extra)
MkCase(a, extra) ==
  LET r == Mktime(a.y, a.mo, a.d, a.h, a.mi, a.s) v == ArrOf(a, extra) IN
  CASE r[1] = "err" -> Case(P2(TVar("a"), TC0("mktime")), << << "a", v >> >>, ErrAny)
    [] r[1] = "ok" -> Case(P2(TVar("a"), TC0("mktime")), << << "a", v >> >>, OkS(ZToVal(r[2])))
    [] r[1] = "may" -> [MayBe(P2(TVar("a"), TC0("mktime")), ZToVal(r[2])) EXCEPT !.vars = << << "w", ZToVal(r[2]) >>, << "a", v >> >>]
Malformed == {ArrV(<<>>), ArrV(<< IntV(2000), IntV(0), IntV(1), IntV(0), IntV(0) >>), ArrV(<< StrV(Ascii("a")), IntV(0), IntV(1), IntV(0), IntV(0), IntV(0) >>),
              ArrV(<< IntV(2000), Null, IntV(1), IntV(0), IntV(0), IntV(0) >>), ArrV(<< IntV(2000), IntV(0), IntV(1), IntV(0), IntV(0), StrV(Ascii("a")) >>),
              ArrV(<< FltV(4001, 2), IntV(0), IntV(1), IntV(0), IntV(0), IntV(0) >>), ArrV(<< IntV(2000), FltV(1, 2), IntV(1), IntV(0), IntV(0), IntV(0) >>),
              ArrV(<< IntV(2000), IntV(0), IntV(1), IntV(0), IntV(0), NaN >>), ArrV(<< IntV(2000), IntV(0), IntV(1), IntV(0), IntV(0), Inf >>),
              ArrV(<< IntV(2000), IntV(0), IntV(1), IntV(0), IntV(0), NInf >>), ArrV(<< IntV(2000), IntV(0), IntV(1), IntV(0), IntV(0), FltV(-1, 2) >>),
              ArrV(<< BigV(FALSE, Dg(Ascii("18446744073709553586"))), IntV(0), IntV(1), IntV(0), IntV(0), IntV(0) >>),
              ArrV(<< IntV(2000), BigV(FALSE, Dg(Ascii("18446744073709551616"))), IntV(1), IntV(0), IntV(0), IntV(0) >>),
              Null, StrV(Ascii("a")), IntV(0), ObjV(<<>>), True}
MktimeCases ==
  {MkCase(a, <<>>) : a \in OneField \cup TwoFields}
  \cup {MkCase(a, << StrV(Ascii("a")), Null >>) : a \in {Base}}          \* weekday and yearday are not considered
  \cup {Case(P2(TVar("a"), TC0("mktime")), << << "a", v >> >>, ErrAny) : v \in Malformed}
  \cup {Case(P2(TVar("a"), TC1("strftime", F1)), << << "a", v >> >>, ErrAny) : v \in Malformed \ {IntV(0)}}
  \* half seconds, before and after 1970
  \cup {Case(P2(TVar("a"), TC0("mktime")), << << "a", ArrV(<< IntV(1970), IntV(0), IntV(1), IntV(0), IntV(1), FltV(31, 2) >>) >> >>, OkS(FltV(151, 2))),
        Case(P2(TVar("a"), TC0("mktime")), << << "a", ArrV(<< IntV(1969), IntV(11), IntV(31), IntV(23), IntV(59), FltV(119, 2) >>) >> >>, OkS(FltV(-1, 2))),
        Case(P2(TVar("a"), TC0("mktime")), << << "a", ArrV(<< IntV(1969), IntV(11), IntV(31), IntV(23), IntV(58), FltV(1, 4) >>) >> >>, OkS(FltV(-479, 4)))}

\* non-numeric and non-finite Unix times
BadEpochs == {Null, True, StrV(Ascii("a")), StrV(<<>>), ArrV(<<>>), ObjV(<<>>), NaN, Inf, NInf}
BadCases == {Case(P2(TVar("a"), TC0(f)), << << "a", v >> >>, ErrAny) : v \in BadEpochs, f \in {"gmtime", "todate", "todateiso8601"}}
            \cup {Case(P2(TVar("a"), TC1("strftime", F1)), << << "a", v >> >>, ErrAny) : v \in BadEpochs \ {ArrV(<<>>)}}
            \cup {Case(P2(TVar("a"), TC0("fromdate")), << << "a", v >> >>, ErrAny) : v \in {Null, True, IntV(0), ArrV(<<>>), ObjV(<<>>)}}

\* ISO 8601 texts with offsets
Offsets == {<< << 90 >>, 0 >>, << Ascii("+00:00"), 0 >>, << Ascii("+01:00"), 3600 >>, << Ascii("-08:00"), -28800 >>, << Ascii("+05:30"), 19800 >>,
            << Ascii("+14:00"), 50400 >>, << Ascii("-12:00"), -43200 >>, << Ascii("+23:59"), 86340 >>, << Ascii("-00:30"), -1800 >>}
IsoYears == {0, 1, 4, 100, 1600, 1900, 1955, 1969, 1970, 2000, 2038, 9998}
IsoCases ==
  {LET n == DaysFromCivil(y, md[1], md[2]) b == Bdt(n, sod)
       z == ZSub(JoinEpoch(n, sod), ZOfInt(off[2]))
   IN Case(P2(StrV2T(IsoText(b, <<>>) \o off[1]), TC0("fromdate")), NoVars, OkS(ZToVal(z))) :
     y \in IsoYears, md \in {<< 1, 1 >>, << 2, 28 >>, << 12, 31 >>}, sod \in {0, 79440, 86399}, off \in Offsets}
  \cup {Case(P2(StrV2T(t), TC0("fromdate")), NoVars, ErrAny) :
          t \in {Ascii("1970-13-01T00:00:00Z"), Ascii("1970-00-01T00:00:00Z"), Ascii("1970-02-29T00:00:00Z"), Ascii("1900-02-29T00:00:00Z"), Ascii("2001-04-31T00:00:00Z"),
                 Ascii("1970-01-00T00:00:00Z"), Ascii("1970-01-32T00:00:00Z"), Ascii("1970-01-01T24:00:00Z"), Ascii("1970-01-01T25:00:00Z"), Ascii("1970-01-01T00:60:00Z"),
                 Ascii("1970-01-01T00:00:61Z"), Ascii("1970-01-01T00:00:00"), Ascii("1970-01-01"), Ascii("T00:00:00Z"), 
                 Ascii("1970-01-01T00:00:00Zx"), Ascii("x1970-01-01T00:00:00Z"), Ascii("70-01-01T00:00:00Z"), Ascii("10000-01-01T00:00:00Z"),
                 Ascii("1970-1-1T00:00:00Z"), Ascii("1970/01/01T00:00:00Z"), Ascii("now"), <<>>, Ascii("0"), Ascii("1970-01-01T00:00:00.Z"), Ascii("1970-01-01T00:00:00+01:60")}}
  \* leap days that exist
  \cup {Case(P2(StrV2T(Ascii("2000-02-29T12:00:00Z")), TC0("fromdate")), NoVars, OkS(IntV(951825600))),
        Case(P2(StrV2T(Ascii("1972-02-29T00:00:00+01:00")), TC0("fromdate")), NoVars, OkS(IntV(68169600 - 3600)))}
  \* fractions that are exact
  \cup {Case(P2(StrV2T(Ascii("1970-01-01T00:00:01.5Z")), TC0("fromdate")), NoVars, OkS(FltV(3, 2))),
        Case(P2(StrV2T(Ascii("1969-12-31T23:59:59.5Z")), TC0("fromdate")), NoVars, OkS(FltV(-1, 2))),
        Case(P2(StrV2T(Ascii("1970-01-01T01:00:00.25+01:00")), TC0("fromdate")), NoVars, OkS(FltV(1, 4))),
        Case(P2(StrV2T(Ascii("1970-01-01T00:00:00.500000Z")), TC0("fromdate")), NoVars, OkS(FltV(1, 2)))}

\* fractional Unix times (at most six digits, |t| < 2^51 microseconds): to the microsecond
Fracs == {<< 5 >>, << 2, 5 >>, << 0, 0, 0, 0, 0, 1 >>, << 9, 9, 9, 9, 9, 9 >>, << 1, 2, 3, 4, 5, 6 >>, << 8, 4, 2, 7, 0, 9 >>, << 2, 6, 7, 4, 6 >>, << 4, 5, 1, 5, 9 >>, << 7, 9, 7, 9, 2, 7 >>,
          << 0, 1 >>, << 1 >>, << 3 >>, << 7, 2, 9, 6, 3, 4 >>}
FracSecs == {<<>>, Dg(Ascii("1")), Dg(Ascii("59")), Dg(Ascii("86399")), Dg(Ascii("542213519")), Dg(Ascii("1080387012")), Dg(Ascii("725930101")), Dg(Ascii("1700000000")),
             Dg(Ascii("2147483647")), Dg(Ascii("951782399")), Dg(Ascii("1693543031")), Dg(Ascii("2208988800"))}
Micros(fr) == MagVal(fr \o [i \in 1..(6 - Len(fr)) |-> 0], 0)
Scale == TPipe(TBin("*", TId, TNum(1000000)), TC0("round"))
FracCases ==
  UNION {(LET z == Z(neg, m)
             u == Micros(fr)
             \* whole seconds (floor) and microseconds of the instant
             zs == IF neg THEN ZSub(z, ZOfInt(1)) ELSE z
             us == IF neg THEN 1000000 - u ELSE u
             s == SplitEpoch(zs) b == Bdt(s[2], s[3])
             lit == [k |-> "bignum", neg |-> neg, d |-> m, fr |-> fr]
             total == ZAdd(ZMul(zs, ZOfInt(1000000)), ZOfInt(us))
             isoFrac == << 46 >> \o [i \in 1..6 |-> 48 + ((us \div (10 ^ (6 - i))) % 10)]
         IN {Case(P2(lit, TPipe(TC0("gmtime"), TBin("|=", TPath(TId, << PIdx(TNum(5)) >>), Scale))), NoVars, OkS(BdtArr(b, IntV(b.s * 1000000 + us)))),
             Case(P4(lit, TC0("gmtime"), TC0("mktime"), Scale), NoVars, OkS(ZToVal(total))),
             Case(P4(lit, TC0("todate"), TC0("fromdate"), Scale), NoVars, OkS(ZToVal(total))),
             Case(P2(StrV2T(IsoText(b, isoFrac) \o << 90 >>), TPipe(TC0("fromdate"), Scale)), NoVars, OkS(ZToVal(total)))}
            \cup (IF us % 10 # 0 THEN {Case(P2(lit, TC0("todate")), NoVars, OkS(StrV(IsoText(b, isoFrac) \o << 90 >>)))} ELSE {})
            \cup {Case(P4(lit, TC1("strftime", TStr(Fmt("~F ~T~.f"))), TC1("strptime", TStr(Fmt("~F ~T~.f"))), TPipe(TC0("mktime"), Scale)), NoVars, OkS(ZToVal(total)))})
         : neg \in BOOLEAN, m \in FracSecs, fr \in Fracs}

AllCases ==
  CASE Suite = "epoch" -> UNION {EpochCases(z) : z \in Epochs}
    [] Suite = "mktime" -> MktimeCases \cup BadCases
    [] Suite = "iso" -> IsoCases
    [] Suite = "frac" -> FracCases

Init == cs \in AllCases /\ done = FALSE
Emit == ~done /\ done' = TRUE /\ UNCHANGED cs /\ PrintT(<< "VEC", ToJson(cs) >>)
Spec == Init /\ [][Emit]_<< cs, done >>
TypeOK == cs.expect.e.k \in {"ok", "err"}
=============================================================================

---------------------------- MODULE JaqInPlace ----------------------------
(***************************************************************************)
(* `jaq --in-place f g1 ... gn` as a file-system state machine with crash  *)
(* and fault actions (manual, cli "--in-place"; property C18).             *)
(*                                                                         *)
(* One action per file-system call of the implementation                   *)
(* (jaq/src/main.rs real_main, `if cli.in_place`):                         *)
(*   Open(i)    open the input file (it is then memory mapped)             *)
(*   MkTemp     create a fresh temporary file in the same directory, 0600  *)
(*   Write      append bytes of the output to the temporary file           *)
(*   Stat       read the permission bits of the input file                 *)
(*   Rename     rename the temporary file over the input file              *)
(*   Chmod      restore the permission bits                                *)
(*   Unlink     remove the temporary file (on any failure)                 *)
(*   Exit(c)                                                               *)
(* plus what happens inside the process without a system call:             *)
(*   FinishOk / FinishErr   the filter finished on the current file        *)
(* and what the environment can do:                                        *)
(*   Fail       the call about to be made returns an error                 *)
(*   Kill       the process is killed (SIGKILL) at any moment              *)
(*                                                                         *)
(* Contents are abstract: "orig" (the original bytes), "new" (the complete *)
(* output of the filter for that file).  A partial output can only ever be *)
(* in the temporary file.                                                  *)
(***************************************************************************)
EXTENDS Integers, Sequences, FiniteSets, TLC

CONSTANTS NFmc,      \* number of input files in the exhaustive configuration
          MaxW       \* bound on the number of write calls per file

VARIABLES outc,    \* [1..NF -> {"ok", "err"}]: does the filter (or the parsing of the input) fail on file i (fixed per behaviour)
          pc,      \* program counter of the process
          cur,     \* index of the file being processed
          fs,      \* [1..NF -> [c: content, m: mode]]   c \in {"orig","new"}, m \in {"orig","tmp"}
          tmp,     \* [exists: BOOLEAN, w: Nat] the temporary file and the number of writes to it
          code,    \* exit status once decided (-1: not yet)
          killed

vars == << outc, pc, cur, fs, tmp, code, killed >>
Outcome == outc

Files == DOMAIN outc
NF == Len(outc)

Init ==
  /\ outc \in [1..NFmc -> {"ok", "err"}]
  /\ pc = "start" /\ cur = 1
  /\ fs = [i \in Files |-> [c |-> "orig", m |-> "orig"]]
  /\ tmp = [exists |-> FALSE, w |-> 0]
  /\ code = -1 /\ killed = FALSE

Alive == ~killed /\ pc # "exited"

Open ==
  /\ Alive /\ pc = "start"
  /\ pc' = "opened" /\ UNCHANGED << outc, cur, fs, tmp, code, killed >>
MkTemp ==
  /\ Alive /\ pc = "opened"
  /\ tmp' = [exists |-> TRUE, w |-> 0] /\ pc' = "run" /\ UNCHANGED << outc, cur, fs, code, killed >>
Write ==
  /\ Alive /\ pc = "run" /\ tmp.w < MaxW
  /\ tmp' = [tmp EXCEPT !.w = @ + 1] /\ UNCHANGED << outc, pc, cur, fs, code, killed >>
FinishOk ==
  /\ Alive /\ pc = "run" /\ Outcome[cur] = "ok"
  /\ pc' = "fin" /\ UNCHANGED << outc, cur, fs, tmp, code, killed >>
FinishErr ==
  /\ Alive /\ pc = "run" /\ Outcome[cur] = "err"
  /\ pc' = "cleanup" /\ code' = 5 /\ UNCHANGED << outc, cur, fs, tmp, killed >>
Stat ==
  /\ Alive /\ pc = "fin"
  /\ pc' = "stat" /\ UNCHANGED << outc, cur, fs, tmp, code, killed >>
Rename ==
  /\ Alive /\ pc = "stat" /\ tmp.exists
  /\ fs' = [fs EXCEPT ![cur] = [c |-> "new", m |-> "tmp"]]
  /\ tmp' = [tmp EXCEPT !.exists = FALSE]
  /\ pc' = "renamed" /\ UNCHANGED << outc, cur, code, killed >>
Chmod ==
  /\ Alive /\ pc = "renamed"
  /\ fs' = [fs EXCEPT ![cur].m = "orig"]
  /\ IF cur < NF THEN cur' = cur + 1 /\ pc' = "start" /\ code' = code
     ELSE cur' = cur /\ pc' = "cleanup" /\ code' = 0
  /\ UNCHANGED << outc, tmp, killed >>
\* the call that is due returns an error: everything stops, status 2
Fail ==
  /\ Alive /\ pc \in {"start", "opened", "run", "fin", "stat", "renamed"}
  /\ pc' = "cleanup" /\ code' = 2 /\ UNCHANGED << outc, cur, fs, tmp, killed >>
Unlink ==
  /\ Alive /\ pc = "cleanup" /\ tmp.exists
  /\ tmp' = [tmp EXCEPT !.exists = FALSE] /\ UNCHANGED << outc, pc, cur, fs, code, killed >>
Exit ==
  /\ Alive /\ pc = "cleanup" /\ ~tmp.exists
  /\ pc' = "exited" /\ UNCHANGED << outc, cur, fs, tmp, code, killed >>
Kill ==
  /\ Alive
  /\ killed' = TRUE /\ UNCHANGED << outc, pc, cur, fs, tmp, code >>

Next == Open \/ MkTemp \/ Write \/ FinishOk \/ FinishErr \/ Stat \/ Rename \/ Chmod \/ Fail \/ Unlink \/ Exit \/ Kill
Spec == Init /\ [][Next]_vars

-----------------------------------------------------------------------------
TypeOK ==
  /\ pc \in {"start", "opened", "run", "fin", "stat", "renamed", "cleanup", "exited"}
  /\ cur \in Files /\ tmp.w \in 0..MaxW /\ code \in {-1, 0, 2, 5}

\* at every moment, whatever happens, an input file holds its original bytes or the complete output
Atomic == \A i \in Files : fs[i].c \in {"orig", "new"}

\* a file is replaced only after the filter has finished on it without error
OnlyAfterSuccess == \A i \in Files : fs[i].c = "new" => Outcome[i] = "ok"

\* files are replaced in order: before the current one new (if successful), after it old
InOrder == \A i \in Files : (i > cur => fs[i].c = "orig") /\ (i < cur => fs[i].c = "new")

\* on normal termination: status, contents, permission bits, no temporary file
Terminated ==
  pc = "exited" =>
    /\ ~tmp.exists
    /\ code = 0 => \A i \in Files : fs[i].c = "new" /\ fs[i].m = "orig"
    /\ code = 5 => Outcome[cur] = "err" /\ fs[cur].c = "orig"
    /\ code # 0 => \A i \in Files : i > cur => fs[i] = [c |-> "orig", m |-> "orig"]
    /\ \A i \in Files : i < cur => fs[i] = [c |-> "new", m |-> "orig"]

\* the only moment at which the permission bits differ from the original ones is between rename and chmod
ModeWindow == \A i \in Files : fs[i].m = "tmp" => (i = cur /\ pc \in {"renamed", "cleanup", "exited"})

\* liveness: under weak fairness of the process's own steps (the environment need not kill or fail anything)
\* every run ends: the process exits or has been killed
ProcStep == Open \/ MkTemp \/ FinishOk \/ FinishErr \/ Stat \/ Rename \/ Chmod \/ Unlink \/ Exit
FairSpec == Spec /\ WF_vars(ProcStep)
Ends == <>(pc = "exited" \/ killed)
\* every run ends (no deadlock short of exit or kill)
Progress == (pc # "exited" /\ ~killed) => ENABLED Next
=============================================================================

------------------------------ MODULE JaqCli ------------------------------
(***************************************************************************)
(* The command line as a state machine with history (manual, docs/cli.dj;  *)
(* property C17): the main loop and the filters `input` / `inputs` pull    *)
(* from ONE cursor per input file; outputs are written one by one, each    *)
(* completely before the next is computed; the first uncaught error stops  *)
(* everything; the exit status reports the outcome.                        *)
(*                                                                         *)
(* An input file is a sequence of items, an item is a value (identified by *)
(* its position <<file, index>>) or "bad" (text that does not parse).      *)
(* A filter is a script: the sequence of effects it has on one main-loop   *)
(* input value, written with a small vocabulary that corresponds to real   *)
(* jq programs (see Text):                                                 *)
(*   "dot"  .              "inp"  input           "all"  inputs            *)
(*   "arr"  [inputs]       "one"  first(inputs)   "two"  limit(2; inputs)  *)
(*   "err"  error          "hlt"  halt_error(7)   "fls"  false             *)
(*   "nop"  empty          "ser"  ("E\n" | stderr | empty): a side effect   *)
(*                                that is visible between two outputs      *)
(* and a script <<a, b>> is the filter `a, b`.                             *)
(*                                                                         *)
(* With --null-input the filter runs once per file on null, the file's     *)
(* values being available to input / inputs only.                          *)
(* Actions: MainPull, Op (one effect of the script), NextFile.             *)
(***************************************************************************)
EXTENDS Integers, Sequences, FiniteSets, TLC, Json

CONSTANTS MaxItems, NFiles

Ops == {"dot", "inp", "all", "arr", "one", "two", "err", "hlt", "fls", "nop", "ser"}

VARIABLES files,    \* <<file1, file2, ..>>, file = sequence of items: "bad" or "val"
          script,   \* sequence of ops
          nullin,   \* --null-input
          estatus,  \* --exit-status
          file,     \* index of the current file
          pos,      \* number of items of the current file consumed so far (the ONE cursor)
          pcs,      \* position in the script (0: main loop)
          curv,     \* main-loop value being processed (<<f, i>> or <<0, 0>> for null)
          out,      \* sequence of written outputs: <<"v", f, i>>, <<"a", f, <<i..>>>>, <<"false">>, <<"null">>
          last,     \* "none" | "true" | "false": boolean value of the last output
          status,   \* -1 while running, else exit status
          used,     \* set of <<f, i>> consumed so far (history)
          twoleft,  \* remaining pulls of a "two"/"all" op in progress (-1: none)
          nulldone  \* with --null-input: has the single null input been given to the filter

vars == << files, script, nullin, estatus, file, pos, pcs, curv, out, last, status, used, twoleft, nulldone >>

Item == {"val", "bad"}
RECURSIVE SeqsUpTo(_, _)
SeqsUpTo(A, n) == IF n = 0 THEN {<<>>} ELSE SeqsUpTo(A, n - 1) \cup {Append(s, a) : s \in SeqsUpTo(A, n - 1), a \in A}

Scripts == {<< a >> : a \in Ops} \cup {<< a, b >> : a \in {"dot", "inp", "one", "nop", "fls"}, b \in Ops}
           \cup {<< "dot", "ser", b >> : b \in {"dot", "inp", "fls"}}

Init ==
  /\ files \in [1..NFiles -> SeqsUpTo(Item, MaxItems)]
  /\ script \in Scripts
  /\ nullin \in BOOLEAN /\ estatus \in BOOLEAN
  /\ file = 1 /\ pos = 0 /\ pcs = 0 /\ curv = << 0, 0 >>
  /\ out = <<>> /\ last = "none" /\ status = -1 /\ used = {} /\ twoleft = -1 /\ nulldone = FALSE

Running == status = -1
HasNext == pos < Len(files[file])
NextItem == files[file][pos + 1]

Stop(c) == status' = c
Consume == pos' = pos + 1 /\ used' = used \cup {<< file, pos + 1 >>}

\* the main loop takes the next value of the current file (or the single null with --null-input)
MainPull ==
  /\ Running /\ pcs = 0
  /\ IF nullin
     THEN /\ ~nulldone /\ nulldone' = TRUE /\ curv' = << 0, 0 >> /\ pcs' = 1
          /\ UNCHANGED << files, script, nullin, estatus, file, pos, out, last, status, used, twoleft >>
     ELSE /\ HasNext
          /\ IF NextItem = "bad"
             THEN Stop(5) /\ Consume /\ UNCHANGED << pcs, curv >>
             ELSE Consume /\ curv' = << file, pos + 1 >> /\ pcs' = 1 /\ UNCHANGED status
          /\ UNCHANGED << files, script, nullin, estatus, file, out, last, twoleft, nulldone >>

\* end of the current file (or of the null input): next file, or the end
NextFile ==
  /\ Running /\ pcs = 0
  /\ IF nullin THEN nulldone ELSE ~HasNext
  /\ IF file < NFiles
     THEN file' = file + 1 /\ pos' = 0 /\ UNCHANGED status
     ELSE /\ UNCHANGED << file, pos >>
          /\ status' = (IF ~estatus THEN 0 ELSE IF last = "none" THEN 4 ELSE IF last = "false" THEN 1 ELSE 0)
  /\ nulldone' = FALSE
  /\ UNCHANGED << files, script, nullin, estatus, pcs, curv, out, last, used, twoleft >>

Write(o, truth) == out' = Append(out, o) /\ last' = truth
Advance == pcs' = (IF pcs = Len(script) THEN 0 ELSE pcs + 1)

\* one effect of the script
Op ==
  /\ Running /\ pcs > 0
  /\ LET op == script[pcs] IN
     CASE op = "dot" -> /\ Write(IF curv = << 0, 0 >> THEN << "null" >> ELSE << "v", curv[1], curv[2] >>, IF curv = << 0, 0 >> THEN "false" ELSE "true")
                        /\ Advance /\ UNCHANGED << pos, used, status, twoleft >>
       [] op = "fls" -> Write(<< "false" >>, "false") /\ Advance /\ UNCHANGED << pos, used, status, twoleft >>
       [] op = "nop" -> Advance /\ UNCHANGED << out, last, pos, used, status, twoleft >>
       [] op = "ser" -> out' = Append(out, << "E" >>) /\ Advance /\ UNCHANGED << last, pos, used, status, twoleft >>
       [] op = "err" -> Stop(5) /\ UNCHANGED << out, last, pos, used, pcs, twoleft >>
       [] op = "hlt" -> Stop(7) /\ UNCHANGED << out, last, pos, used, pcs, twoleft >>
       [] op \in {"inp", "one"} ->
            \* input is first(inputs) (manual): the next value, nothing if there is none
            IF ~HasNext THEN Advance /\ UNCHANGED << out, last, pos, used, status, twoleft >>
            ELSE IF NextItem = "bad" THEN Stop(5) /\ Consume /\ UNCHANGED << out, last, pcs, twoleft >>
            ELSE Consume /\ Write(<< "v", file, pos + 1 >>, "true") /\ Advance /\ UNCHANGED << status, twoleft >>
       [] op \in {"all", "two"} ->
            \* inputs / limit(2; inputs): one value per step, each written before the next is pulled
            LET left == IF twoleft = -1 THEN (IF op = "two" THEN 2 ELSE MaxItems + 1) ELSE twoleft IN
            IF left = 0 \/ ~HasNext THEN Advance /\ twoleft' = -1 /\ UNCHANGED << out, last, pos, used, status >>
            ELSE IF NextItem = "bad" THEN Stop(5) /\ Consume /\ UNCHANGED << out, last, pcs, twoleft >>
            ELSE Consume /\ Write(<< "v", file, pos + 1 >>, "true") /\ twoleft' = left - 1 /\ UNCHANGED << pcs, status >>
       [] op = "arr" ->
            \* [inputs]: all remaining values of the file in one output; a bad item fails before anything is written
            LET rest == (pos + 1)..Len(files[file])
                firstbad == {i \in rest : files[file][i] = "bad"}
            IN IF firstbad # {}
               THEN LET b == CHOOSE i \in firstbad : \A j \in firstbad : i <= j
                    IN Stop(5) /\ pos' = b /\ used' = used \cup {<< file, i >> : i \in (pos + 1)..b} /\ UNCHANGED << out, last, pcs, twoleft >>
               ELSE /\ pos' = Len(files[file]) /\ used' = used \cup {<< file, i >> : i \in rest}
                    /\ Write(<< "a", file, [k \in 1..(Len(files[file]) - pos) |-> pos + k] >>, "true")
                    /\ Advance /\ UNCHANGED << status, twoleft >>
  /\ UNCHANGED << files, script, nullin, estatus, file, curv, nulldone >>

Next == MainPull \/ NextFile \/ Op
Spec == Init /\ [][Next]_vars

-----------------------------------------------------------------------------
\* the values an output stands for
Mentioned(o) == IF o[1] = "v" THEN {<< o[2], o[3] >>} ELSE IF o[1] = "a" THEN {<< o[2], o[3][k] >> : k \in 1..Len(o[3])} ELSE {}

\* every input value is consumed at most once, in order, per file: the cursor only moves forward and
\* what has been consumed is exactly the prefix of each file up to the cursor
ConsumedIsPrefix ==
  /\ \A f \in 1..NFiles : f > file => \A i \in 1..Len(files[f]) : << f, i >> \notin used
  /\ \A i \in 1..Len(files[file]) : (<< file, i >> \in used) <=> (i <= pos)

\* no value is written twice and outputs appear in input order
OutputsInOrder ==
  \A a \in 1..Len(out), b \in 1..Len(out) :
     a < b => \A x \in Mentioned(out[a]), y \in Mentioned(out[b]) : x # y /\ (x[1] < y[1] \/ (x[1] = y[1] /\ x[2] < y[2]))

\* everything written stands for consumed, well-formed input
OnlyConsumed == \A a \in 1..Len(out) : \A x \in Mentioned(out[a]) : x \in used /\ files[x[1]][x[2]] = "val"

\* the exit status tells the truth
StatusOk ==
  status \in {-1, 0, 1, 4, 5, 7}
  /\ (status = 4 => (\A a \in 1..Len(out) : out[a][1] = "E") /\ estatus)
  /\ (status = 1 => estatus /\ last = "false")
  /\ (status = 0 /\ estatus => last = "true")
  /\ (status \in {0, 1, 4} /\ ~nullin => file = NFiles /\ pos = Len(files[file]) /\ \A f \in 1..NFiles : \A i \in 1..Len(files[f]) : files[f][i] = "val" \/ << f, i >> \notin used)

Terminates == (status = -1) => ENABLED Next
\* liveness: under weak fairness every run reaches an exit status
FairSpec == Spec /\ WF_vars(Next)
Ends == <>(status # -1)

\* one replay vector per terminated behaviour
EmitVec == (status # -1) =>
  PrintT(<< "VEC", ToJson([files |-> files, script |-> script, nullin |-> nullin, estatus |-> estatus, out |-> out, status |-> status]) >>)
=============================================================================

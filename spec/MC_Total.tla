------------------------------ MODULE MC_Total ------------------------------
(***************************************************************************)
(* C05: what TLC supplies to the totality check.                           *)
(*   pool   the boundary values of every kind (JaqValues): the driver      *)
(*          forms the products natives x pool^(1 + arity)                  *)
(*   texts  every sequence of at most Size tokens of the filter language   *)
(*          (operators, brackets, keywords, literals, an unterminated      *)
(*          string, multi-byte characters) - valid and invalid filters     *)
(*   yaml / xml / toml / csv / json   every sequence of at most Size       *)
(*          tokens of the format (anchors and aliases, tags, DOCTYPE,      *)
(*          tables, quotes ...) - well-formed and ill-formed documents     *)
(* Every case is one initial state; Emit writes it.                        *)
(***************************************************************************)
EXTENDS JaqCodec, Json

CONSTANTS Suite, Size
VARIABLES cs, done

Dg(s) == [i \in 1..Len(s) |-> s[i] - 48]
Big(neg, s) == BigV(neg, Dg(Ascii(s)))
Pool == <<
  Null, True, False, IntV(0), IntV(1), IntV(-1), IntV(2147483647), IntV(-2147483647), Big(FALSE, "2147483648"), Big(TRUE, "2147483649"), Big(FALSE, "4294967296"),
  Big(FALSE, "9007199254740993"), Big(FALSE, "9223372036854775807"), Big(TRUE, "9223372036854775807"), Big(TRUE, "9223372036854775808"), Big(FALSE, "9223372036854775808"),
  Big(FALSE, "18446744073709551616"), Big(TRUE, "1180591620717411303424"),
  FltV(3, 2), FltV(-1, 2), NZero, NaN, Inf, NInf, DecV(Ascii("1e1000")), DecV(Ascii("-1e-1000")), DecV(Ascii("1.10")), FltV(1, 1024),
  StrV(<<>>), StrV(<< 97 >>), StrV(<< 228, 8364, 128578 >>), StrV(<< -255 >>), StrV(<< 97, -128, 98 >>), StrV(<< 0 >>), StrV(Ascii("1")), StrV(Ascii("%Y %Q")), StrV(Ascii("(?:(a)|(b))*")), StrV(Ascii("ba")),
  BytesV(<<>>), BytesV(<< 0, 255 >>),
  ArrV(<<>>), ArrV(<< Null >>), ArrV(<< IntV(1), StrV(<< 97 >>), ArrV(<<>>) >>), ArrV(<< Big(TRUE, "9223372036854775808") >>), ArrV(<< NaN, IntV(1), NaN >>), ArrV(<< IntV(2000), IntV(127), IntV(1), IntV(0), IntV(0), IntV(0) >>),
  ArrV(<< StrV(<< 97 >>), IntV(0) >>), ArrV(<< ArrV(<< IntV(0) >>), ArrV(<< IntV(1), IntV(2) >>) >>), ArrV(<< IntV(1114112), IntV(55296), IntV(-1) >>),
  ObjV(<<>>), ObjV(<< << StrV(<< 97 >>), IntV(1) >> >>), ObjV(<< << IntV(1), Null >>, << Null, ArrV(<<>>) >> >>), ObjV(<< << StrV(Ascii("start")), IntV(-1) >>, << StrV(Ascii("end")), Big(FALSE, "9223372036854775808") >> >>),
  ObjV(<< << StrV(Ascii("key")), Null >>, << StrV(Ascii("value")), IntV(1) >> >>)
>>

RECURSIVE TokSeqs(_, _)
TokSeqs(T, n) == IF n = 0 THEN {<<>>} ELSE TokSeqs(T, n - 1) \cup {Append(s, t) : s \in TokSeqs(T, n - 1), t \in T}
RECURSIVE JoinToks(_, _)
JoinToks(ts, sep) == IF ts = <<>> THEN <<>> ELSE IF Len(ts) = 1 THEN ts[1] ELSE ts[1] \o sep \o JoinToks(Tail(ts), sep)

FilterToks == {Ascii("."), Ascii("|"), Ascii(","), Ascii("("), Ascii(")"), Ascii("["), Ascii("]"), Ascii("{"), Ascii("}"), Ascii(":"), Ascii("1"), Ascii("\"a\""), Ascii("$x"), Ascii("as"), Ascii("def"),
               Ascii("f"), Ascii(";"), Ascii("if"), Ascii("then"), Ascii("else"), Ascii("end"), Ascii("reduce"), Ascii("foreach"), Ascii("try"), Ascii("catch"), Ascii("label"), Ascii("break"), Ascii(".."),
               Ascii("?"), Ascii("//"), Ascii("="), Ascii("|="), Ascii("+"), Ascii("-"), Ascii("and"), Ascii(".a"), Ascii(".["), Ascii("import"), Ascii("include"), << 34 >>, << 34, 92, 40 >>,
               << 167 >>, << 128163 >>, Ascii("@base64"), Ascii("::"), Ascii("$__loc__"), Ascii("0x"), Ascii("1e"), Ascii("#"), Ascii("\"\\u"), Ascii("$"), Ascii("@"), Ascii("elif"), Ascii("module"), Ascii("\"\\(1"),
               Ascii("1.5e"), Ascii("'"), << 92 >>, Ascii("?//"), Ascii("%"), Ascii("<="), Ascii("limit(1;"), Ascii("input")}
YamlToks == {Ascii("&a "), Ascii("&b "), Ascii("*a"), Ascii("*b"), Ascii("["), Ascii("]"), Ascii(","), Ascii("{"), Ascii("}"), Ascii(": "), Ascii("- "), Ascii("!!int "), Ascii("!!binary "), Ascii("!x "), Ascii("1"),
             Ascii("a"), << 10 >>, Ascii("  "), Ascii("? "), Ascii("|"), Ascii(">"), Ascii("---"), Ascii("..."), Ascii("<<: "), Ascii("\""), Ascii("'"), Ascii("#"), Ascii("%YAML 1.2"), Ascii("~"), Ascii("!!str "),
             Ascii("=="), << 9 >>, Ascii("!!map "), Ascii("!!seq "), Ascii("!!null "), Ascii("!!float "), Ascii(".inf")}
XmlToks == {Ascii("<a>"), Ascii("</a>"), Ascii("<a/>"), Ascii("<b c=\"1\">"), Ascii("</b>"), Ascii("t"), Ascii("&amp;"), Ascii("&e;"), Ascii("&#0;"), Ascii("<!--"), Ascii("-->"), Ascii("<![CDATA["), Ascii("]]>"),
            Ascii("<?xml version=\"1.0\"?>"), Ascii("<?pi"), Ascii("?>"), Ascii("<!DOCTYPE a>"), Ascii("<!DOCTYPE a [<!ENTITY e \"v\">]>"), Ascii("<"), Ascii(">"), Ascii("&"), Ascii("<a b="), Ascii("'"), Ascii("\""),
            Ascii("<x:a>"), Ascii(" "), << 10 >>, Ascii("<a xmlns:x=\"u\">"), << 228 >>, Ascii("<a b='1' b='2'>")}
TomlToks == {Ascii("a"), Ascii(" = "), Ascii("1"), << 10 >>, Ascii("[a]"), Ascii("[[a]]"), Ascii("[a.b]"), Ascii("\"s\""), Ascii("'"), Ascii("\""), Ascii("{"), Ascii("}"), Ascii("["), Ascii("]"), Ascii(","), Ascii("."),
             Ascii("1979-05-27T07:32:00Z"), Ascii("true"), Ascii("inf"), Ascii("nan"), Ascii("0x"), Ascii("1_0"), Ascii("#"), Ascii("\"\"\""), Ascii("+"), Ascii("-"), Ascii("1e"), Ascii("99999999999999999999"), Ascii("\\u")}
CsvToks == {Ascii("a"), Ascii(","), Ascii("\""), << 10 >>, << 13 >>, << 9 >>, Ascii("1"), Ascii("\\"), Ascii("\\n"), Ascii("true"), Ascii(" "), Ascii("\"\""), Ascii("1e999"), Ascii("-"), << 255 - 510 >>}
JsonToks == {Ascii("["), Ascii("]"), Ascii("{"), Ascii("}"), Ascii(","), Ascii(":"), Ascii("1"), Ascii("\"a\""), Ascii("\""), Ascii("\\u"), Ascii("\\ud800"), Ascii("-"), Ascii("1e"), Ascii("."), Ascii("nan"), Ascii("NaN"),
             Ascii("Infinity"), Ascii("true"), Ascii("nul"), Ascii("b\""), Ascii("\\x"), Ascii("#"), << 10 >>, Ascii("0"), Ascii("e999"), << -255 >>, Ascii("-Infinity"), Ascii("/*")}

Docs(T, sep) == {JoinToks(ts, sep) : ts \in TokSeqs(T, Size)}
AllCases ==
  CASE Suite = "pool" -> {[pool |-> Pool]}
    [] Suite = "texts" -> {[text |-> d] : d \in Docs(FilterToks, << 32 >>)}
    [] Suite = "yaml" -> {[doc |-> d] : d \in Docs(YamlToks, <<>>)}
    [] Suite = "xml" -> {[doc |-> d] : d \in Docs(XmlToks, <<>>)}
    [] Suite = "toml" -> {[doc |-> d] : d \in Docs(TomlToks, <<>>)}
    [] Suite = "csv" -> {[doc |-> d] : d \in Docs(CsvToks, <<>>)}
    [] Suite = "json" -> {[doc |-> d] : d \in Docs(JsonToks, <<>>)}
Init == cs \in AllCases /\ done = FALSE
Emit == ~done /\ done' = TRUE /\ UNCHANGED cs /\ PrintT(<< "VEC", ToJson(cs) >>)
Spec == Init /\ [][Emit]_<< cs, done >>
TypeOK == TRUE
=============================================================================

----------------------------- MODULE MC_Sem -----------------------------
(***************************************************************************)
(* Exhaustive configuration over program space: every program of a family  *)
(* up to a node bound x every input is one initial state.  The invariants  *)
(* are theorems of the definitional semantics; the Emit action writes the  *)
(* expected behaviour of each case as a replay vector for the real code.   *)
(***************************************************************************)
EXTENDS JaqGen, Json

CONSTANTS Family, MaxN, Mode

Inputs ==
  CASE Family = "binders" -> {IntV(0)}
    [] Family = "order" -> {IntV(0), Null}
    [] Family = "paths" -> {ArrV(<< ArrV(<< IntV(0) >>), IntV(1) >>),
                            ObjV(<< << StrV(Ascii("a")), ArrV(<< IntV(0), Null >>) >> >>), IntV(0)}
    [] Family = "streams" -> {IntV(0), ArrV(<< IntV(1), Null, IntV(2) >>)}

VARIABLES prog, input, done
vars == << prog, input, done >>

Wrap(p) ==
  CASE Mode = "run" -> p
    [] Mode = "paths" -> TC1("path", p)
    [] Mode = "getpath" -> TC1("getpath", TC1("path", p))

Expect == RunProg(Wrap(prog), input)

Init == prog \in Programs(Family, MaxN) /\ input \in Inputs /\ done = FALSE

Emit ==
  /\ ~done
  /\ done' = TRUE
  /\ PrintT(<< "VEC", ToJson([prog |-> Wrap(prog), input |-> input, expect |-> Expect]) >>)
  /\ UNCHANGED << prog, input >>

Spec == Init /\ [][Emit]_vars

-----------------------------------------------------------------------------
\* Theorems of the semantics, checked on every program of the space.

WellFormed == Expect.e.k \in {"ok", "err", "brk", "div", "unk", "unsup", "halt"}

\* no break escapes a closed program, nothing in the generated fragment is unsupported
Closed == Expect.e.k \notin {"brk", "unsup"}

\* getpath(path(p)) reproduces p  (C02), whenever path(p) is defined
PathsAgree ==
  LET ps == RunProg(TC1("path", prog), input)
      gs == RunProg(TC1("getpath", TC1("path", prog)), input)
      vs == RunProg(prog, input)
  IN (ps.e.k = "ok" /\ vs.e.k = "ok") => (gs.e.k = "ok" /\ Len(gs.o) = Len(vs.o) /\ \A i \in 1..Len(vs.o) : Eq(gs.o[i], vs.o[i]))
=============================================================================

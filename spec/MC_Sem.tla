----------------------------- MODULE MC_Sem -----------------------------
(***************************************************************************)
(* Exhaustive configuration over program space: every program of a family  *)
(* up to a node bound x every input is one initial state.  The invariants  *)
(* are theorems of the definitional semantics; the Emit action writes the  *)
(* expected behaviour of each case as a replay vector for the real code.   *)
(***************************************************************************)
EXTENDS JaqGen, Json

CONSTANTS Family, MaxN, Modes, FuelN

Inputs ==
  CASE Family = "binders" -> {IntV(0)}
    [] Family = "order" -> {IntV(0), Null}
    [] Family = "paths" -> {ArrV(<< ArrV(<< IntV(0) >>), IntV(1) >>),
                            ObjV(<< << StrV(Ascii("a")), ArrV(<< IntV(0), Null >>) >> >>), IntV(0),
                            ArrV(<< Null, ArrV(<< IntV(0) >>) >>)}
    [] Family = "streams" -> {IntV(0), ArrV(<< IntV(1), Null, IntV(2) >>)}
    [] Family = "rec" -> {Null}
    [] Family = "lazyp" -> {ArrV(<< ArrV(<< IntV(0) >>), IntV(1) >>)}
    [] Family = "pathidx" -> {ArrV(<< ArrV(<< IntV(0), IntV(1), IntV(2) >>), IntV(1), IntV(2), IntV(3) >>),
                              ObjV(<< << StrV(Ascii("a")), ArrV(<< IntV(0), IntV(1) >>) >> >>)}

VARIABLES prog, input, mode, done
vars == << prog, input, mode, done >>

\* update filters with zero, one, two outputs and an error
UEmpty == TC0("empty")
UOne   == TArr(TId)
UTwo   == TComma(TId, TArr(TId))
UErr   == TC0("error")

Wrap(p) ==
  LET Mode == mode IN
  CASE Mode = "run" -> p
    [] Mode = "paths" -> TC1("path", p)
    [] Mode = "getpath" -> TC1("getpath", TC1("path", p))
    [] Mode = "pathvalue" -> TC1("path_value", p)
    [] Mode = "upd-empty" -> TBin("|=", p, UEmpty)
    [] Mode = "upd-one" -> TBin("|=", p, UOne)
    [] Mode = "upd-two" -> TBin("|=", p, UTwo)
    [] Mode = "upd-err" -> TBin("|=", p, UErr)
    [] Mode = "assign" -> TBin("=", p, TComma(TNum(7), TC0("null")))
    [] Mode = "addassign" -> TBin("+=", p, TComma(TNum(1), TArr(TNum(2))))
    [] Mode = "altassign" -> TBin("//=", p, TComma(TNum(7), TNum(8)))
    [] Mode = "del" -> TC1("del", p)
    [] Mode = "collect" -> TArr(p)

Expect == RunProgF(Wrap(prog), input, FuelN)

Init == prog \in Programs(Family, MaxN) /\ input \in Inputs /\ mode \in Modes /\ done = FALSE

Emit ==
  /\ ~done
  /\ done' = TRUE
  /\ PrintT(<< "VEC", ToJson([prog |-> Wrap(prog), input |-> input, mode |-> mode, expect |-> Expect]) >>)
  /\ UNCHANGED << prog, input, mode >>

Spec == Init /\ [][Emit]_vars

-----------------------------------------------------------------------------
\* Theorems of the semantics, checked on every program of the space.

WellFormed == Expect.e.k \in {"ok", "err", "brk", "div", "unk", "unsup", "halt"}

\* no break escapes a closed program, nothing in the generated fragment is unsupported
Closed == Expect.e.k \notin {"brk", "unsup"}

\* direct sub-terms of a syntax tree
SubTerms(t) ==
  CASE t.k \in {"id", "recurse", "num", "bignum", "break", "var"} -> <<>>
    [] t.k = "str" -> [i \in 1..Len(t.parts) |-> IF t.parts[i].p = "f" THEN t.parts[i].f ELSE TId]
    [] t.k = "arr" -> IF "f" \in DOMAIN t THEN << t.f >> ELSE <<>>
    [] t.k = "obj" -> FlatSeq([i \in 1..Len(t.es) |-> << t.es[i].key, t.es[i].val >>])
    [] t.k \in {"neg", "label"} -> << t.f >>
    [] t.k \in {"bin", "as"} -> << t.l, t.r >>
    [] t.k = "fold" -> << t.xs, t.init, t.upd >> \o (IF "proj" \in DOMAIN t THEN << t.proj >> ELSE <<>>)
    [] t.k = "try" -> << t.f, t.c >>
    [] t.k = "if" -> << t.c, t.t, t.e >>
    [] t.k = "def" -> [i \in 1..Len(t.defs) |-> t.defs[i].body] \o << t.r >>
    [] t.k = "call" -> t.args
    [] t.k = "path" -> << t.l >> \o FlatSeq([i \in 1..Len(t.parts) |->
                          (IF "i" \in DOMAIN t.parts[i] THEN << t.parts[i].i >> ELSE <<>>) \o
                          (IF "j" \in DOMAIN t.parts[i] THEN << t.parts[i].j >> ELSE <<>>)])
    [] OTHER -> <<>>

RECURSIVE HasAlt(_)
HasAlt(t) ==
  (t.k = "bin" /\ t.op = "//") \/ LET st == SubTerms(t) IN \E i \in 1..Len(st) : HasAlt(st[i])

\* getpath(path(p)) reproduces p  (C02), whenever path(p) is defined; `f // g` is excluded here:
\* its paths are those of `if first(f // false) then f else g end` (manual), which is what Ev implements
RECURSIVE HasTry(_)
HasTry(t) == t.k = "try" \/ LET st == SubTerms(t) IN \E i \in 1..Len(st) : HasTry(st[i])
\* ... and so is `try`: it turns "not a path expression" (an error of path mode only) into fewer paths
PathsAgree ==
  HasAlt(prog) \/ HasTry(prog) \/
  LET ps == RunProgF(TC1("path", prog), input, FuelN)
      gs == RunProgF(TC1("getpath", TC1("path", prog)), input, FuelN)
      vs == RunProgF(prog, input, FuelN)
  IN (ps.e.k = "ok" /\ vs.e.k = "ok") => (gs.e.k = "ok" /\ Len(gs.o) = Len(vs.o) /\ \A i \in 1..Len(vs.o) : Eq(gs.o[i], vs.o[i]))
=============================================================================

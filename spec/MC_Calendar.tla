---------------------------- MODULE MC_Calendar ----------------------------
(***************************************************************************)
(* The two formulations of the Gregorian calendar agree: walk the          *)
(* successor relation (A) day by day through every year, the years being   *)
(* reached by hops of 365/366 days forwards and backwards from 1970-01-01, *)
(* and compare with the closed forms (B) in every state.  400 years cover  *)
(* one full cycle in each direction; the thorough configuration covers     *)
(* every day of the years -9999..9999.                                     *)
(***************************************************************************)
EXTENDS JaqTime

CONSTANTS YearsFwd, YearsBwd
VARIABLES n, c, mode, base

YearLen(y) == IF IsLeap(y) THEN 366 ELSE 365
\* mode "hop": 1 January of successive years (forwards or backwards from 1970), the day number advancing by the
\* length of the year; every such state also starts a day-by-day walk (mode "day") through its year
Init == n = 0 /\ c = << 1970, 1, 1 >> /\ mode \in {"fwd", "bwd"} /\ base = 0
HopF == mode = "fwd" /\ c[1] < 1970 + YearsFwd /\ n' = n + YearLen(c[1]) /\ c' = << c[1] + 1, 1, 1 >> /\ base' = n' /\ UNCHANGED mode
HopB == mode = "bwd" /\ c[1] > 1970 - YearsBwd /\ n' = n - YearLen(c[1] - 1) /\ c' = << c[1] - 1, 1, 1 >> /\ base' = n' /\ UNCHANGED mode
Start == mode \in {"fwd", "bwd"} /\ mode' = "day" /\ n' = n + 1 /\ c' = NextDay(c) /\ UNCHANGED base
Day == mode = "day" /\ c[1] = CivilFromDays(base)[1] /\ c # << c[1], 12, 31 >> /\ n' = n + 1 /\ c' = NextDay(c) /\ UNCHANGED << mode, base >>
Next == HopF \/ HopB \/ Start \/ Day
Spec == Init /\ [][Next]_<< n, c, mode, base >>

Valid == ValidDate(c[1], c[2], c[3])
ClosedFormAgrees == CivilFromDays(n) = c /\ DaysFromCivil(c[1], c[2], c[3]) = n
\* the day walk and the year hops meet: the day after 31 December is 1 January, one year length after the last one
YearsMeet == (mode = "day" /\ c[2] = 12 /\ c[3] = 31) => (NextDay(c) = << c[1] + 1, 1, 1 >> /\ n + 1 = base + YearLen(c[1]))
PrevInverse == PrevDay(NextDay(c)) = c /\ NextDay(PrevDay(c)) = c
\* 1 January is day 0 of the year, the weekday advances by one each day
YearDayLaw == YearDay(c[1], c[2], c[3]) = n - base /\ YearDay(c[1], c[2], c[3]) < YearLen(c[1])
WeekDayLaw == WeekDay(n) \in 0..6 /\ WeekDay(n + 1) = (WeekDay(n) + 1) % 7
\* splitting and joining Unix times are inverse
SplitJoin == (c[3] \in {1, 28}) => \A sod \in {0, 86399} : SplitEpoch(JoinEpoch(n, sod)) = << "ok", n, sod >>
=============================================================================

SPECIFICATION Spec
CONSTANTS
  Family = "binders"
  MaxN = 4
  Mode = "run"
INVARIANT WellFormed
INVARIANT Closed
CHECK_DEADLOCK FALSE

------------------------------ MODULE MC_Eq ------------------------------
(***************************************************************************)
(* The defining equations of the stream combinators and generators         *)
(* (manual, docs/stdlib.dj and docs/corelang.dj), one obligation each:     *)
(* for every argument stream f of the family `eqf` (finite streams with    *)
(* errors at every position and multiplicities), every count around 0 and  *)
(* the stream length, every input:  Eval(lhs) = Eval(rhs).                 *)
(* TLC checks the equation on the specification (invariant Holds); both    *)
(* sides are emitted as replay vectors for the real code.                  *)
(***************************************************************************)
EXTENDS JaqGen, Json

CONSTANTS MaxN, Group

VARIABLES eq, done
vs == << eq, done >>

Fs == Programs("eqf", MaxN)
Counts == {TNeg(TNum(2)), TNeg(TNum(1)), TNum(0), TNum(1), TNum(2), TNum(3), TNum(4)}
Inputs == {IntV(0), ArrV(<< IntV(1), Null, IntV(2) >>)}

E(name, l, r) == [name |-> name, l |-> l, r |-> r]
Def0(name, body, rest) == TDefs(<< TDef(name, <<>>, body) >>, rest)

\* update filters for reduce/foreach: 0, 1, 2 outputs, an error, dependence on $x and on the state
Us == {TArr(TComma(TId, TVar("x"))), TC0("empty"), TComma(TVar("x"), TArr(TId)), TC0("error"), TVar("x")}
Ps == {TId, TVar("x"), TComma(TId, TId), TC0("empty")}

StreamEqs ==
  {E("limit-skip", TComma(TC2("limit", n, f), TC2("skip", n, f)), f) : n \in Counts, f \in Fs}
  \cup {E("first-limit1", TC1("first", f), TC2("limit", TNum(1), f)) : f \in Fs}
  \cup {E("first-label", TC1("first", f), TLabel("l", TPipe(f, TComma(TId, TBreak("l"))))) : f \in Fs}
  \cup {E("last-collect", TArr(TC1("last", f)), TPipe(TArr(f), TPath(TId, << PFrom(TNeg(TNum(1))) >>))) : f \in Fs}
  \cup {E("nth-first-skip", TC2("nth", n, f), TC1("first", TC2("skip", n, f))) : n \in Counts \ {TNeg(TNum(2)), TNeg(TNum(1))}, f \in Fs}
  \cup {E("isempty-first", TC1("isempty", f), TPipe(TArr(TC1("first", TPipe(f, TNum(1)))), TBin("==", TC0("length"), TNum(0)))) : f \in Fs}
  \cup {E("all-any", TC2("all", f, TId), TPipe(TC2("any", f, TC0("not")), TC0("not"))) : f \in Fs}
  \cup {E("any-isempty", TC2("any", f, TId), TPipe(TC1("isempty", TPipe(f, TBin("or", TId, TC0("empty")))), TC0("not"))) : f \in Fs}
  \cup {E("add-reduce", TC1("add", f), TReduce(f, "x", TC0("null"), TBin("+", TId, TVar("x")))) : f \in Fs}
  \cup {E("select-if", TC1("select", f), TIf(f, TId, TC0("empty"))) : f \in Fs}
  \cup {E("error-dot", TPipe(f, TC0("error")), TPipe(f, TC1("error", TId))) : f \in Fs}
  \cup {E("limit-foreach", TC2("limit", n, f),
          TIf(TBin("<=", n, TNum(0)), TC0("empty"),
              TLabel("o", [k |-> "fold", name |-> "foreach", xs |-> f, pat |-> [p |-> "var", x |-> "x"], init |-> n,
                           upd |-> TBin("-", TId, TNum(1)),
                           proj |-> TIf(TBin("<=", TId, TNum(0)), TComma(TVar("x"), TBreak("o")), TVar("x"))]))) : n \in Counts, f \in Fs}

FoldEqs ==
  \* reduce/foreach over two and three explicit elements = the nested-pipe expansion of the manual
  {E("reduce-expand3", TReduce(TComma(a, TComma(b, c)), "x", TId, u),
        TPipe(TId, TPipe(TAs(a, "x", u), TPipe(TAs(b, "x", u), TAs(c, "x", u))))) :
     a \in {TNum(1)}, b \in {TNum(3)}, c \in {TNum(5), TC1("error", TNum(7))}, u \in Us}
  \cup {E("foreach-expand3",
          [k |-> "fold", name |-> "foreach", xs |-> TComma(a, TComma(b, c)), pat |-> [p |-> "var", x |-> "x"], init |-> TId, upd |-> u, proj |-> p],
          TPipe(TId, TAs(a, "x", TPipe(u, TComma(p, TAs(b, "x", TPipe(u, TComma(p, TAs(c, "x", TPipe(u, TComma(p, TC0("empty")))))))))))) :
     a \in {TNum(1)}, b \in {TNum(3)}, c \in {TNum(5), TC1("error", TNum(7))}, u \in Us, p \in Ps}
  \cup {E("foreach-noproj", TForeach(f, "x", TId, u),
          [k |-> "fold", name |-> "foreach", xs |-> f, pat |-> [p |-> "var", x |-> "x"], init |-> TId, upd |-> u, proj |-> TId]) :
     f \in Fs, u \in Us}
  \cup {E("reduce-empty", TReduce(TC0("empty"), "x", f, TC0("error")), f) : f \in Fs}
  \cup {E("foreach-empty", TForeach(TC0("empty"), "x", f, TC0("error")), TPipe(f, TC0("empty"))) : f \in Fs}

RV == {TNum(0), TNum(1), TNum(3), TNeg(TNum(1)), TNeg(TNum(2)), TStr(<<>>), TStr(Ascii("a")), TC0("null")}
RangeDef(a, b, c) ==
  TAs(a, "a", TAs(b, "b", TAs(c, "c",
    TPipe(TVar("a"),
      TIf(TBin(">", TVar("c"), TNum(0)), TC2("while", TBin("<", TId, TVar("b")), TBin("+", TId, TVar("c"))),
      TIf(TBin("<", TVar("c"), TNum(0)), TC2("while", TBin(">", TId, TVar("b")), TBin("+", TId, TVar("c"))),
          TC2("while", TBin("!=", TId, TVar("b")), TBin("+", TId, TVar("c")))))))))
GenEqs ==
  {E("range3-while", TC2("limit", TNum(5), TCall("range", << a, b, c >>)), TC2("limit", TNum(5), RangeDef(a, b, c))) :
     a \in RV, b \in RV \cup {TNum(4)}, c \in {TNum(1), TNum(2), TNeg(TNum(1)), TNum(0), TStr(Ascii("a")), TC0("null")}}
  \cup {E("range3-multi", TCall("range", << TComma(TNum(0), TNum(1)), TComma(TNum(2), TNum(3)), TComma(TNum(1), TNum(2)) >>),
          RangeDef(TComma(TNum(0), TNum(1)), TComma(TNum(2), TNum(3)), TComma(TNum(1), TNum(2))))}
  \cup {E("range2", TC2("range", a, b), TCall("range", << a, b, TNum(1) >>)) : a \in RV, b \in RV \cup {TNum(4)}}
  \cup {E("range1", TC1("range", b), TC2("range", TNum(0), b)) : b \in RV \cup {TNum(4)}}
  \cup {E("repeat-def", TC2("limit", TNum(4), TC1("repeat", f)), TC2("limit", TNum(4), Def0("r", TComma(f, TC0("r")), TC0("r")))) : f \in Fs}
  \cup {E("recurse-def", TC2("limit", TNum(5), TC1("recurse", g)),
          TC2("limit", TNum(5), Def0("r", TComma(TId, TPipe(g, TC0("r"))), TC0("r")))) :
        g \in {TIterO, TIter, TBin("+", TId, TNum(1)), TC0("empty"), TC0("error"), TComma(TIterO, TIterO)}}
  \cup {E("recurse0", TC0("recurse"), TC1("recurse", TIterO)), E("recurse-dots", TC0("recurse"), TRec)}
  \cup {E("recurse2", TC2("limit", TNum(5), TC2("recurse", g, c)), TC2("limit", TNum(5), TC1("recurse", TPipe(g, TC1("select", c))))) :
        g \in {TIterO, TBin("+", TId, TNum(1))}, c \in {TBin("<", TId, TNum(3)), TC0("true"), TC0("false"), TC0("error")}}
  \cup {E("while-def", TC2("limit", TNum(5), TC2("while", c, u)),
          TC2("limit", TNum(5), Def0("w", TIf(c, TComma(TId, TPipe(u, TC0("w"))), TC0("empty")), TC0("w")))) :
        c \in {TBin("<", TId, TNum(3)), TC0("true"), TComma(TC0("true"), TC0("false")), TC0("error")},
        u \in {TBin("+", TId, TNum(1)), TC0("empty"), TComma(TBin("+", TId, TNum(1)), TBin("+", TId, TNum(2)))}}
  \cup {E("until-def", TC2("limit", TNum(5), TC2("until", c, u)),
          TC2("limit", TNum(5), Def0("w", TIf(c, TId, TPipe(u, TC0("w"))), TC0("w")))) :
        c \in {TBin(">=", TId, TNum(3)), TC0("true"), TComma(TC0("false"), TC0("true")), TC0("error")},
        u \in {TBin("+", TId, TNum(1)), TC0("empty"), TComma(TBin("+", TId, TNum(1)), TBin("+", TId, TNum(2)))}}
  \cup {E("empty-def", TC0("empty"), TAs(TPath(TObj(<<>>), << PIter >>), "x", TId))}

Eqs == CASE Group = "stream" -> StreamEqs [] Group = "fold" -> FoldEqs [] Group = "gen" -> GenEqs

VARIABLE input
Init == eq \in Eqs /\ input \in Inputs /\ done = FALSE

L == RunProg(eq.l, input)
R == RunProg(eq.r, input)

Emit ==
  /\ ~done
  /\ done' = TRUE
  /\ PrintT(<< "VEC", ToJson([prog |-> eq.l, input |-> input, eqn |-> eq.name, side |-> "lhs", expect |-> L]) >>)
  /\ PrintT(<< "VEC", ToJson([prog |-> eq.r, input |-> input, eqn |-> eq.name, side |-> "rhs", expect |-> R]) >>)
  /\ UNCHANGED << eq, input >>

Spec == Init /\ [][Emit]_<< eq, done, input >>

Definite(s) == s.e.k \in {"ok", "err"}
SameEnd(a, b) == a.e.k = b.e.k /\ (a.e.k = "err" => (a.e.v = b.e.v \/ (a.e.v.t # "ierr" /\ b.e.v.t # "ierr" /\ Eq(a.e.v, b.e.v))))
SamePrefix(a, b, n) == \A i \in 1..n : a.o[i] = b.o[i]
Min2(x, y) == IF x < y THEN x ELSE y

\* the equation holds on the specification: equal streams where both sides are definite,
\* equal common prefix where one side is only known up to fuel
Holds ==
  IF Definite(L) /\ Definite(R)
  THEN Len(L.o) = Len(R.o) /\ SamePrefix(L, R, Len(L.o)) /\ SameEnd(L, R)
  ELSE L.e.k = "unsup" \/ R.e.k = "unsup" \/ SamePrefix(L, R, Min2(Len(L.o), Len(R.o)))

Supported == L.e.k # "unsup" /\ R.e.k # "unsup"
=============================================================================

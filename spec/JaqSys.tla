------------------------------- MODULE JaqSys -------------------------------
(***************************************************************************)
(* What a jaq process may do at the system-call boundary (README, security *)
(* guarantees; property C06), as a phase automaton over classes of calls.  *)
(*                                                                         *)
(* Phases: "startup" (the dynamic loader and the Rust runtime), "load"     *)
(* (the filter file, module and data files of import directives, files of  *)
(* --rawfile / --slurpfile), "exec" (running the filter on its inputs).    *)
(* Classes of paths (decided by the driver from the command line and the   *)
(* module resolution of JaqModules, never from what the filter computes):  *)
(*   "runtime"   loader, shared libraries, /proc/self, cgroup, cpu info    *)
(*   "load"      files that may be read while loading                      *)
(*   "input"     input files named on the command line                     *)
(*   "tz"        the system time-zone database                             *)
(*   "other"     everything else (every path in the data, every honeypot)  *)
(* There is no action for: opening anything for writing, opening a path of *)
(* class "other", opening a "load" file once execution has begun, the      *)
(* time-zone database unless the filter is a local-time / zone-name        *)
(* filter, sockets, new processes, and calls that create, rename, link,    *)
(* delete or change files.                                                 *)
(***************************************************************************)
EXTENDS Integers, Sequences

VARIABLES phase,    \* "startup" | "load" | "exec" | "done"
          tzok,     \* may the filter at hand consult the time-zone database
          reads     \* number of files opened (history, for non-vacuity)
svars == << phase, tzok, reads >>

SysInit(tz) == phase = "startup" /\ tzok = tz /\ reads = 0

\* the process begins to load filters (first access to a "load" file, or the driver's marker)
BeginLoad == phase = "startup" /\ phase' = "load" /\ UNCHANGED << tzok, reads >>
\* execution begins (first access to an input, or the driver's marker)
BeginExec(tz) == phase \in {"startup", "load", "exec"} /\ phase' = "exec" /\ tzok' = tz /\ UNCHANGED reads

OpenRead(cls) ==
  /\ \/ cls = "runtime"
     \/ cls = "load" /\ phase \in {"startup", "load"}
     \/ cls = "input" /\ phase \in {"startup", "load", "exec"}
     \/ cls = "tz" /\ tzok
  /\ phase' = (IF cls = "load" THEN "load" ELSE IF cls = "input" THEN "exec" ELSE phase)
  /\ reads' = reads + 1 /\ UNCHANGED tzok
Exit == phase' = "done" /\ UNCHANGED << tzok, reads >>

\* what the environment can observe but the specification never allows (no action): listed for the trace specification
Forbidden == {"open-write", "open-other", "net", "proc", "fsmod"}

TypeOK == phase \in {"startup", "load", "exec", "done"} /\ tzok \in BOOLEAN
\* a "load" file is never read once execution has begun (guard of OpenRead); as an invariant over histories:
\* the phase only moves forward
Rank(p) == CASE p = "startup" -> 0 [] p = "load" -> 1 [] p = "exec" -> 2 [] p = "done" -> 3
PhaseOrder == [][Rank(phase) <= Rank(phase')]_svars
=============================================================================

----------------------------- MODULE JaqCompile -----------------------------
(***************************************************************************)
(* The call classification of the compiler (jaq-core/src/compile.rs:       *)
(* Compiler::term / def / open_def, Locals::call; property C04) and the    *)
(* abstract machine that shows what it is for.                             *)
(*                                                                         *)
(* A. Classify(prog): a transcription of how the compiler decides, for     *)
(*    every call of a local definition, whether the callee runs Inline, is *)
(*    thrown as a tail call (Throw), or runs on a trampoline that catches  *)
(*    tail calls to itself (CatchOne) or to anything (CatchAll).  `tr` is  *)
(*    the set of definitions that may be tail-called from the position at  *)
(*    hand; a definition remembers which of them it actually tail-calls.   *)
(*    The result is the sequence of classified calls in the order in which *)
(*    the compiler meets them - the conformance check compares it with     *)
(*    what the real compiler reports (hook).                               *)
(* B. The machine: frames are native activations; a frame may own a        *)
(*    trampoline.  Inline / CatchOne / CatchAll push a frame; Throw(g)     *)
(*    unwinds to the nearest frame whose trampoline accepts g and lets it  *)
(*    run g there; a definition may also return.  Claim (MC_Compile): for  *)
(*    every nest whose recursive calls are all tail calls, the number of   *)
(*    frames is bounded by a constant of the nest, in every behaviour; and *)
(*    every Throw finds its trampoline.                                    *)
(* Definitions are identified by their names (unique in generated nests).  *)
(***************************************************************************)
EXTENDS JaqTail

\* local bindings of filters, innermost last: [name, ar, kind |-> "arg" | "parent" | "sibling", tr |-> what a sibling may tail-call]
LEntry(name, ar, kind, tr) == [name |-> name, ar |-> ar, kind |-> kind, tr |-> tr]
Lookup(loc, name, ar) == LET A == {i \in 1..Len(loc) : loc[i].name = name /\ loc[i].ar = ar} IN IF A = {} THEN 0 ELSE SetMax(A)

\* Locals::call
ClassifyCall(loc, name, ar, tr) ==
  LET i == Lookup(loc, name, ar) IN
  IF i = 0 \/ loc[i].kind = "arg" THEN [typ |-> "none", tr |-> {}]
  ELSE IF loc[i].kind = "sibling"
       THEN LET rec == name \in loc[i].tr
                rest == loc[i].tr \ {name}
            IN IF rest \subseteq tr THEN [typ |-> IF rec THEN "CatchOne" ELSE "Inline", tr |-> rest] ELSE [typ |-> "CatchAll", tr |-> {}]
       ELSE IF name \in tr THEN [typ |-> "Throw", tr |-> {name}] ELSE [typ |-> "CatchAll", tr |-> {}]

Res(tr, log) == [tr |-> tr, log |-> log]
RECURSIVE CTerm(_, _, _, _)
RECURSIVE CSeq(_, _, _, _)
RECURSIVE CDefList(_, _, _, _, _)
\* a sequence of terms, none in tail position
CSeq(ts, i, loc, cur) == IF i > Len(ts) THEN <<>> ELSE CTerm(ts[i], loc, {}, cur).log \o CSeq(ts, i + 1, loc, cur)
\* the definitions defs[i..]: each is compiled with itself added to tr, then becomes a sibling for what follows
CDefList(defs, i, loc, tr, cur) ==
  IF i > Len(defs) THEN [loc |-> loc, log |-> <<>>]
  ELSE LET d == defs[i]
           args == [k \in 1..Len(d.params) |-> LEntry(d.params[k].n, 0, IF d.params[k].var THEN "var" ELSE "arg", {})]
           inner == loc \o SelectSeq(args, LAMBDA e : e.kind = "arg") \o << LEntry(d.name, Len(d.params), "parent", {}) >>
           r == CTerm(d.body, inner, tr \cup {d.name}, d.name)
           rest == CDefList(defs, i + 1, Append(loc, LEntry(d.name, Len(d.params), "sibling", r.tr)), tr, cur)
       IN [loc |-> rest.loc, log |-> r.log \o rest.log]
CTerm(t, loc, tr, cur) ==
  CASE t.k \in {"id", "num", "str", "var", "recurse", "bignum", "break"} -> Res({}, <<>>)
    [] t.k = "call" ->
         LET c == ClassifyCall(loc, t.f, Len(t.args), tr) IN
         Res(c.tr, CSeq(t.args, 1, loc, cur) \o (IF c.typ = "none" THEN <<>> ELSE << [caller |-> cur, callee |-> t.f, ar |-> Len(t.args), typ |-> c.typ, tail |-> TRUE] >>))
    [] t.k = "bin" ->
         IF t.op = "," THEN LET l == CTerm(t.l, loc, tr, cur) r == CTerm(t.r, loc, tr, cur) IN Res(l.tr \cup r.tr, l.log \o r.log)
         ELSE IF t.op \in {"|", "//"} THEN LET l == CTerm(t.l, loc, {}, cur) r == CTerm(t.r, loc, tr, cur) IN Res(r.tr, l.log \o r.log)
         ELSE Res({}, CTerm(t.l, loc, {}, cur).log \o CTerm(t.r, loc, {}, cur).log)
    [] t.k = "as" -> LET l == CTerm(t.l, loc, {}, cur) r == CTerm(t.r, loc, tr, cur) IN Res(r.tr, l.log \o r.log)
    [] t.k = "if" ->
         LET c == CTerm(t.c, loc, {}, cur) a == CTerm(t.t, loc, tr, cur)
             b == IF "e" \in DOMAIN t THEN CTerm(t.e, loc, tr, cur) ELSE Res({}, <<>>)
         IN Res(a.tr \cup b.tr, c.log \o a.log \o b.log)
    [] t.k = "fold" ->
         LET pre == CTerm(t.xs, loc, {}, cur).log \o CTerm(t.init, loc, {}, cur).log \o CTerm(t.upd, loc, {}, cur).log IN
         IF "proj" \in DOMAIN t /\ t.name = "foreach" THEN LET p == CTerm(t.proj, loc, tr, cur) IN Res(p.tr, pre \o p.log) ELSE Res({}, pre)
    [] t.k = "def" -> LET dl == CDefList(t.defs, 1, loc, tr, cur) b == CTerm(t.r, dl.loc, tr, cur) IN Res(b.tr, dl.log \o b.log)
    [] t.k = "try" -> LET f == CTerm(t.f, loc, tr, cur) IN Res(f.tr, f.log \o (IF "c" \in DOMAIN t THEN CTerm(t.c, loc, {}, cur).log ELSE <<>>))
    [] t.k = "arr" -> Res({}, IF "f" \in DOMAIN t THEN CTerm(t.f, loc, {}, cur).log ELSE <<>>)
    [] t.k \in {"neg", "label"} -> Res({}, CTerm(t.f, loc, {}, cur).log)
    [] t.k = "path" -> Res({}, CTerm(t.l, loc, {}, cur).log \o
                            CSeq([i \in 1..Len(t.parts) |-> IF t.parts[i].p = "idx" THEN t.parts[i].i ELSE [k |-> "id"]], 1, loc, cur))
    [] OTHER -> Res({}, <<>>)
\* the main program is compiled in a position from which nothing may be tail-called
Classify(prog) == CTerm(prog, <<>>, {}, "main").log

-----------------------------------------------------------------------------
(* B *)
VARIABLES prog,     \* the program (constant per behaviour)
          calls,    \* its classified calls
          frames,   \* native activations, innermost last: [def, catch |-> "none" | "one" | "all"]
          lost      \* a Throw found no trampoline
mvars == << prog, calls, frames, lost >>

MachInit(p) == prog = p /\ calls = Classify(p) /\ frames = << [def |-> "main", catch |-> "none"] >> /\ lost = FALSE
Top == frames[Len(frames)]
CallsOf(d) == {i \in 1..Len(calls) : calls[i].caller = d}
Accepts(f, g) == f.catch = "all" \/ (f.catch = "one" /\ f.def = g)
Call(i) ==
  /\ calls[i].caller = Top.def
  /\ LET c == calls[i] IN
     CASE c.typ = "Inline" -> frames' = Append(frames, [def |-> c.callee, catch |-> "none"]) /\ UNCHANGED lost
       [] c.typ = "CatchOne" -> frames' = Append(frames, [def |-> c.callee, catch |-> "one"]) /\ UNCHANGED lost
       [] c.typ = "CatchAll" -> frames' = Append(frames, [def |-> c.callee, catch |-> "all"]) /\ UNCHANGED lost
       [] c.typ = "Throw" ->
            LET A == {j \in 1..Len(frames) : Accepts(frames[j], c.callee)} IN
            IF A = {} THEN lost' = TRUE /\ UNCHANGED frames
            ELSE LET j == SetMax(A) IN frames' = Append(SubSeq(frames, 1, j - 1), [def |-> c.callee, catch |-> frames[j].catch]) /\ UNCHANGED lost
  /\ UNCHANGED << prog, calls >>
Return == Len(frames) > 1 /\ frames' = SubSeq(frames, 1, Len(frames) - 1) /\ UNCHANGED << prog, calls, lost >>
MachNext == (\E i \in 1..Len(calls) : Call(i)) \/ Return

NumDefs == Cardinality(DefsIn(prog))
\* the native depth is bounded by a constant of the program, whatever the number of iterations
BoundedDepth == Len(frames) <= 2 * NumDefs + 2
ThrowsAreCaught == ~lost
=============================================================================

--------------------------- MODULE JaqValues ---------------------------
(***************************************************************************)
(* Values of jaq and the primitive operations on them, written from the    *)
(* manual (docs/corelang.dj "Values", "Path operators", "Binary (simple)"; *)
(* docs/advanced.dj "Pathless" for iter_upd / index_upd / slice_upd).      *)
(*                                                                         *)
(* A value is a tagged record; field names of different kinds are disjoint *)
(* so that TLC never compares incomparable things:                         *)
(*   [t |-> "null"]                                                        *)
(*   [t |-> "bool", b |-> BOOLEAN]                                         *)
(*   [t |-> "int",  n |-> Int]              exact integer (|n| < 2^31)     *)
(*   [t |-> "flt",  p |-> Int, q |-> Nat]   float with exact value p/q,    *)
(*                                          q a power of two, lowest terms *)
(*   [t |-> "str",  c |-> Seq(Int)]  text: code points, an invalid byte b  *)
(*                                          is the negative number -b      *)
(*   [t |-> "bytes", y |-> Seq(0..255)]                                    *)
(*   [t |-> "arr",  a |-> Seq(Value)]                                      *)
(*   [t |-> "obj",  o |-> Seq(<<key, value>>), uo |-> BOOLEAN]  insertion   *)
(*                                          order; uo: order unspecified   *)
(*   [t |-> "ierr"]     the (unspecified) message of an internal error     *)
(*                                                                         *)
(* A primitive returns either a value or a failure record                  *)
(*   [t |-> "FAIL", v |-> payload]  (payload = error value; internal       *)
(*   errors carry IErr) or [t |-> "UNK"] (result outside the specified     *)
(*   fragment: inexact float, message-dependent value, ...).               *)
(***************************************************************************)
EXTENDS Integers, Sequences, FiniteSets, TLC, BigNat

Null      == [t |-> "null"]
Bool(b)   == [t |-> "bool", b |-> b]
IntV(n)   == [t |-> "int", n |-> n]
FltV(p,q) == [t |-> "flt", p |-> p, q |-> q]
StrV(c)   == [t |-> "str", c |-> c]
BytesV(y) == [t |-> "bytes", y |-> y]
ArrV(a)   == [t |-> "arr", a |-> a]
ObjV(o)   == [t |-> "obj", o |-> o, uo |-> FALSE]   \* uo: key order not fixed by the manual (after a deleting update)
ObjU(o, u) == [t |-> "obj", o |-> o, uo |-> u]
IErr      == [t |-> "ierr"]
\* the manual leaves a choice: any of these values (only ever the outermost constructor of an output)
OneOf(alts) == [t |-> "oneof", alts |-> alts]

Fail(v)   == [t |-> "FAIL", v |-> v]
IFail     == Fail(IErr)
Unk       == [t |-> "UNK"]
IsFail(r) == r.t = "FAIL"
IsUnk(r)  == r.t = "UNK"
IsVal(r)  == r.t \notin {"FAIL", "UNK"}

True  == Bool(TRUE)
False == Bool(FALSE)

\* number representations: machine integer, big integer (digits; here only of small value), float p/q,
\* negative zero, +-infinity, decimal literal (kept as text until calculated with)
NZero     == [t |-> "nz"]
Inf       == [t |-> "fsp", k |-> "inf"]
NInf      == [t |-> "fsp", k |-> "ninf"]
NaN       == [t |-> "fsp", k |-> "nan"]
BigV(neg, d) == [t |-> "big", neg |-> neg, d |-> d]
DecV(ds)  == [t |-> "dec", ds |-> ds]
\* a decimal literal denotes zero iff every digit of its mantissa (the part before an exponent) is 0
DecIsZero(ds) == LET E == {i \in 1..Len(ds) : ds[i] \in {69, 101}}
                     m == IF E = {} THEN Len(ds) ELSE (CHOOSE i \in E : \A j \in E : i <= j) - 1
                 IN \A i \in 1..m : ds[i] \in {43, 45, 46, 48}
IsNum(v) == v.t \in {"int", "flt", "nz", "fsp", "big", "dec"}
IsInt(v) == v.t \in {"int", "big"}
IsStr(v) == v.t \in {"str", "bytes"}

\* boolean value of a value
Truthy(v) == ~(v.t = "null" \/ (v.t = "bool" /\ ~v.b))

Abs(n) == IF n < 0 THEN -n ELSE n
Min(a, b) == IF a < b THEN a ELSE b
Max(a, b) == IF a > b THEN a ELSE b

RECURSIVE Gcd(_, _)
Gcd(a, b) == IF b = 0 THEN a ELSE Gcd(b, a % b)

IsPow2(q) == q \in {1, 2, 4, 8, 16, 32, 64, 128, 256, 512, 1024}

\* normalised float from a rational; Unk if not a small dyadic rational
MkFlt(p, q) ==
  IF q = 0 THEN Unk
  ELSE LET s == IF q < 0 THEN -1 ELSE 1
           g == Gcd(Abs(p), Abs(q))
           pp == (s * p) \div g
           qq == (s * q) \div g
       IN IF IsPow2(qq) /\ Abs(pp) < 1000000 THEN FltV(pp, qq) ELSE Unk

RECURSIVE DigitsVal(_, _)
DigitsVal(d, acc) == IF d = <<>> THEN acc ELSE DigitsVal(Tail(d), acc * 10 + Head(d))
RECURSIVE Pow10(_)
Pow10(n) == IF n = 0 THEN 1 ELSE 10 * Pow10(n - 1)

\* value of a decimal literal [-]digits[.digits][e[+-]digits] as a fraction <<p, q>>
DecFrac(ds) ==
  LET neg == ds # <<>> /\ ds[1] = 45
      body == IF neg THEN Tail(ds) ELSE ds
      IsDig(c) == c >= 48 /\ c <= 57
      epos == LET A == {i \in 1..Len(body) : body[i] \in {101, 69}} IN IF A = {} THEN Len(body) + 1 ELSE CHOOSE i \in A : TRUE
      mant == SubSeq(body, 1, epos - 1)
      dpos == LET A == {i \in 1..Len(mant) : mant[i] = 46} IN IF A = {} THEN Len(mant) + 1 ELSE CHOOSE i \in A : TRUE
      ip == SubSeq(mant, 1, dpos - 1)
      fp == SubSeq(mant, dpos + 1, Len(mant))
      digs == [i \in 1..(Len(ip) + Len(fp)) |-> (IF i <= Len(ip) THEN ip[i] ELSE fp[i - Len(ip)]) - 48]
      ex == IF epos > Len(body) THEN 0
            ELSE LET e == SubSeq(body, epos + 1, Len(body))
                     eneg == e # <<>> /\ e[1] = 45
                     ed == IF e # <<>> /\ e[1] \in {43, 45} THEN Tail(e) ELSE e
                     ev == DigitsVal([i \in 1..Len(ed) |-> ed[i] - 48], 0)
                 IN IF eneg THEN -ev ELSE ev
      sc == ex - Len(fp)
      m == DigitsVal(digs, 0) * (IF neg THEN -1 ELSE 1)
  IN IF sc >= 0 THEN << m * Pow10(sc), 1 >> ELSE << m, Pow10(-sc) >>

\* value of a big-integer representation that fits; a huge one is replaced by +-10^9 (only its sign and
\* being out of every small range matters where this is used: clipping of positions, comparison with small floats)
BigVal(v) == IF Len(Strip(v.d)) > 9 THEN (IF v.neg THEN -1000000000 ELSE 1000000000)
             ELSE DigitsVal(v.d, 0) * (IF v.neg THEN -1 ELSE 1)

\* finite numbers as fractions
IsFin(v) == v.t \in {"int", "flt", "nz", "big", "dec"}
NumP(v) == CASE v.t = "int" -> v.n [] v.t = "flt" -> v.p [] v.t = "nz" -> 0 [] v.t = "big" -> BigVal(v) [] v.t = "dec" -> DecFrac(v.ds)[1]
NumQ(v) == CASE v.t = "int" -> 1 [] v.t = "flt" -> v.q [] v.t = "nz" -> 1 [] v.t = "big" -> 1 [] v.t = "dec" -> DecFrac(v.ds)[2]

\* integers of any size (BigNat): conversion, classification, results
IsHuge(v) == v.t = "big" /\ Len(Strip(v.d)) > 9
ZOf(v) == IF v.t = "int" THEN ZOfInt(v.n) ELSE Z(v.neg, Strip(v.d))
MkInt(z) == IF ZSmall(z) THEN IntV(ZVal(z)) ELSE BigV(z.neg, z.d)
SmallInts(x, y) == x.t = "int" /\ y.t = "int" /\ Abs(x.n) < 30000 /\ Abs(y.n) < 30000
IntAdd(x, y) == IF SmallInts(x, y) THEN IntV(x.n + y.n) ELSE MkInt(ZAdd(ZOf(x), ZOf(y)))
IntSub(x, y) == IF SmallInts(x, y) THEN IntV(x.n - y.n) ELSE MkInt(ZSub(ZOf(x), ZOf(y)))
IntMul(x, y) == IF SmallInts(x, y) THEN IntV(x.n * y.n) ELSE MkInt(ZMul(ZOf(x), ZOf(y)))
IntNeg(x) == MkInt(ZNeg(ZOf(x)))
IntIsZero(x) == ZOf(x).d = <<>>
IntSgn(x) == IF IntIsZero(x) THEN 0 ELSE IF ZOf(x).neg THEN -1 ELSE 1

\* does the value contain an internal-error message somewhere?
RECURSIVE HasIErr(_)
HasIErr(v) ==
  CASE v.t \in {"ierr", "fx", "oneof"} -> TRUE     \* opaque to the specification: nothing is computed from them
    [] v.t = "arr" -> \E i \in 1..Len(v.a) : HasIErr(v.a[i])
    [] v.t = "obj" -> \E i \in 1..Len(v.o) : HasIErr(v.o[i][1]) \/ HasIErr(v.o[i][2])
    [] OTHER -> FALSE

-----------------------------------------------------------------------------
(* UTF-8: bytes of a text string given as code points *)
Utf8One(c) ==
  IF c < 0 THEN << -c >>
  ELSE IF c < 128 THEN << c >>
  ELSE IF c < 2048 THEN << 192 + (c \div 64), 128 + (c % 64) >>
  ELSE IF c < 65536 THEN << 224 + (c \div 4096), 128 + ((c \div 64) % 64), 128 + (c % 64) >>
  ELSE << 240 + (c \div 262144), 128 + ((c \div 4096) % 64), 128 + ((c \div 64) % 64), 128 + (c % 64) >>

RECURSIVE Utf8(_)
Utf8(cs) == IF cs = <<>> THEN <<>> ELSE Utf8One(Head(cs)) \o Utf8(Tail(cs))

BytesOf(v) == IF v.t = "str" THEN Utf8(v.c) ELSE v.y

-----------------------------------------------------------------------------
(* The total order of the manual (section "Ordering"). *)
Rank(v) ==
  CASE v.t = "null" -> 0
    [] v.t = "bool" -> 1
    [] v.t \in {"int", "flt", "nz", "fsp", "big", "dec"} -> 2
    [] v.t \in {"str", "bytes"} -> 3
    [] v.t = "arr" -> 4
    [] v.t = "obj" -> 5

Sgn(n) == IF n < 0 THEN -1 ELSE IF n > 0 THEN 1 ELSE 0

RECURSIVE LexInt(_, _)
LexInt(x, y) ==
  IF x = <<>> THEN (IF y = <<>> THEN 0 ELSE -1)
  ELSE IF y = <<>> THEN 1
  ELSE IF Head(x) # Head(y) THEN Sgn(Head(x) - Head(y))
  ELSE LexInt(Tail(x), Tail(y))

RECURSIVE Cmp(_, _), LexVal(_, _), InsertKV(_, _), SortKV(_)

\* insertion sort of key/value pairs by key (keys of an object are distinct)
InsertKV(kv, s) ==
  IF s = <<>> THEN << kv >>
  ELSE IF Cmp(kv[1], Head(s)[1]) <= 0 THEN << kv >> \o s
  ELSE << Head(s) >> \o InsertKV(kv, Tail(s))
SortKV(s) == IF s = <<>> THEN <<>> ELSE InsertKV(Head(s), SortKV(Tail(s)))

LexVal(x, y) ==
  IF x = <<>> THEN (IF y = <<>> THEN 0 ELSE -1)
  ELSE IF y = <<>> THEN 1
  ELSE LET c == Cmp(Head(x), Head(y)) IN IF c # 0 THEN c ELSE LexVal(Tail(x), Tail(y))

Cmp(x, y) ==
  IF Rank(x) # Rank(y) THEN Sgn(Rank(x) - Rank(y))
  ELSE CASE x.t = "null" -> 0
         [] x.t = "bool" -> Sgn((IF x.b THEN 1 ELSE 0) - (IF y.b THEN 1 ELSE 0))
         [] IsNum(x) ->
              \* NaN < -Infinity < finite < Infinity; NaN is smaller than any number, including itself
              IF x.t = "fsp" /\ x.k = "nan" THEN -1
              ELSE IF y.t = "fsp" /\ y.k = "nan" THEN 1
              ELSE LET lvl(v) == IF v.t = "fsp" THEN (IF v.k = "inf" THEN 2 ELSE 0) ELSE 1
                   IN IF lvl(x) # lvl(y) THEN Sgn(lvl(x) - lvl(y))
                      ELSE IF lvl(x) # 1 THEN 0
                      ELSE IF x.t \in {"int", "big"} /\ y.t \in {"int", "big"} THEN ZCmp(ZOf(x), ZOf(y))
                      ELSE IF IsHuge(x) THEN (IF x.neg THEN -1 ELSE 1)
                      ELSE IF IsHuge(y) THEN (IF y.neg THEN 1 ELSE -1)
                      ELSE Sgn(NumP(x) * NumQ(y) - NumP(y) * NumQ(x))
         [] IsStr(x) -> LexInt(BytesOf(x), BytesOf(y))
         [] x.t = "arr" -> LexVal(x.a, y.a)
         [] x.t = "obj" ->
              LET sx == SortKV(x.o)  sy == SortKV(y.o)
                  kc == LexVal([i \in 1..Len(sx) |-> sx[i][1]], [i \in 1..Len(sy) |-> sy[i][1]])
              IN IF kc # 0 THEN kc
                 ELSE LexVal([i \in 1..Len(sx) |-> sx[i][2]], [i \in 1..Len(sy) |-> sy[i][2]])

Eq(x, y) == Cmp(x, y) = 0
Lt(x, y) == Cmp(x, y) < 0

\* stable insertion sort of values
RECURSIVE InsertV(_, _), SortV(_)
InsertV(v, s) ==
  IF s = <<>> THEN << v >>
  ELSE IF Cmp(v, Head(s)) <= 0 THEN << v >> \o s
  ELSE << Head(s) >> \o InsertV(v, Tail(s))
\* the head is inserted before the equal elements of the (already sorted) tail: stable
SortV(s) == IF s = <<>> THEN <<>> ELSE InsertV(Head(s), SortV(Tail(s)))

-----------------------------------------------------------------------------
(* objects as ordered association lists *)
RECURSIVE ObjFind(_, _, _)
\* index of key k in pair list o at or after position i, 0 if absent
ObjFind(o, k, i) ==
  IF i > Len(o) THEN 0 ELSE IF Eq(o[i][1], k) THEN i ELSE ObjFind(o, k, i + 1)

ObjHas(o, k) == ObjFind(o, k, 1) # 0
ObjGet(o, k) == LET i == ObjFind(o, k, 1) IN IF i = 0 THEN Null ELSE o[i][2]
\* insert or overwrite, keeping the position of an existing key
ObjPut(o, k, v) ==
  LET i == ObjFind(o, k, 1)
  IN IF i = 0 THEN Append(o, << k, v >>) ELSE [o EXCEPT ![i] = << o[i][1], v >>]
ObjDel(o, k) ==
  LET i == ObjFind(o, k, 1)
  IN IF i = 0 THEN o ELSE SubSeq(o, 1, i - 1) \o SubSeq(o, i + 1, Len(o))

RECURSIVE ObjPutAll(_, _)
ObjPutAll(o, kvs) == IF kvs = <<>> THEN o ELSE ObjPutAll(ObjPut(o, Head(kvs)[1], Head(kvs)[2]), Tail(kvs))

\* {k: v} construction
MkObj1(k, v) == ObjV(<< << k, v >> >>)

-----------------------------------------------------------------------------
(* positions: arrays, text strings (characters), byte strings (bytes) *)
Elems(v) == CASE v.t = "arr" -> v.a [] v.t = "str" -> v.c [] v.t = "bytes" -> v.y
Length(v) == Len(Elems(v))

\* absolute slice bound, clipped; b is Null or an int value
Bound(b, len, default) ==
  IF b.t = "null" THEN default
  ELSE LET n == NumP(b)
           a == IF n < 0 THEN len + n ELSE n
       IN Min(Max(a, 0), len)

IsBound(b) == b.t \in {"null", "int", "big"}

SliceSeq(s, i, j) ==
  LET from == Bound(i, Len(s), 0)
      upto == Bound(j, Len(s), Len(s))
  IN IF upto <= from THEN <<>> ELSE SubSeq(s, from + 1, upto)

Rewrap(v, s) == CASE v.t = "arr" -> ArrV(s) [] v.t = "str" -> StrV(s) [] v.t = "bytes" -> BytesV(s)

\* .[i:j]
Slice(v, i, j) ==
  IF v.t \in {"arr", "str", "bytes"}
  THEN IF IsBound(i) /\ IsBound(j) THEN Rewrap(v, SliceSeq(Elems(v), i, j)) ELSE IFail
  ELSE IFail

RECURSIVE SubAt(_, _, _)
\* does y occur in x at (1-based) position i ?
SubAt(x, y, i) == \A k \in 1..Len(y) : Eq(x[i + k - 1], y[k])

\* positions (0-based) at which y occurs in x, in order
RECURSIVE OccFrom(_, _, _)
OccFrom(x, y, i) ==
  IF i + Len(y) - 1 > Len(x) THEN <<>>
  ELSE (IF SubAt(x, y, i) THEN << IntV(i - 1) >> ELSE <<>>) \o OccFrom(x, y, i + 1)

\* .[k]  (manual, "Indexing")
Index(v, k) ==
  CASE v.t = "null" -> Null
    [] v.t = "obj" -> ObjGet(v.o, k)
    [] v.t \in {"arr", "str", "bytes"} /\ k.t = "obj" ->
         Slice(v, ObjGet(k.o, StrV(<<115,116,97,114,116>>)), ObjGet(k.o, StrV(<<101,110,100>>)))
    [] v.t \in {"arr", "bytes"} /\ IsInt(k) ->
         LET len == Length(v)
             n == NumP(k)
             a == IF n < 0 THEN len + n ELSE n
         IN IF a < 0 \/ a >= len THEN Null
            ELSE IF v.t = "arr" THEN v.a[a + 1] ELSE IntV(v.y[a + 1])
    [] v.t = "arr" /\ k.t = "arr" ->
         IF k.a = <<>> THEN ArrV(<<>>) ELSE ArrV(OccFrom(v.a, k.a, 1))
    [] OTHER -> IFail

\* .[]  values / keys
Values(v) ==
  CASE v.t = "arr" -> v.a
    [] v.t = "obj" -> [i \in 1..Len(v.o) |-> v.o[i][2]]
    [] OTHER -> IFail
Keys(v) ==
  CASE v.t = "arr" -> [i \in 1..Len(v.a) |-> IntV(i - 1)]
    [] v.t = "obj" -> [i \in 1..Len(v.o) |-> v.o[i][1]]
    [] OTHER -> IFail
CanIter(v) == v.t \in {"arr", "obj"}

\* has($k): true exactly when .[$k] points into the value
Has(v, k) ==
  CASE v.t = "obj" -> Bool(ObjHas(v.o, k))
    [] v.t \in {"arr", "bytes"} /\ IsInt(k) ->
         LET len == Length(v)  n == NumP(k)  a == IF n < 0 THEN len + n ELSE n
         IN Bool(a >= 0 /\ a < len)
    [] OTHER -> IFail

-----------------------------------------------------------------------------
(* arithmetic (manual, "Binary (simple)") *)
\* numbers whose arithmetic the specification computes exactly (no IEEE special cases)
DecNegZero(v) == v.t = "dec" /\ v.ds # <<>> /\ v.ds[1] = 45 /\ NumP(v) = 0
PlainNum(v) == (v.t \in {"int", "flt", "big"} /\ ~IsHuge(v)) \/ (v.t = "dec")

RECURSIVE RepSeq(_, _)
RepSeq(s, n) == IF n <= 0 THEN <<>> ELSE s \o RepSeq(s, n - 1)

RECURSIVE RemoveAll(_, _)
RemoveAll(l, r) ==
  IF l = <<>> THEN <<>>
  ELSE (IF \E i \in 1..Len(r) : Eq(r[i], Head(l)) THEN <<>> ELSE << Head(l) >>) \o RemoveAll(Tail(l), r)

RECURSIVE Merge(_, _)
\* $x * {k: v, ...}
Merge(l, r) ==
  IF r = <<>> THEN l
  ELSE LET k == Head(r)[1]  v == Head(r)[2]
           cur == ObjGet(l, k)
           nv == IF ObjHas(l, k) /\ cur.t = "obj" /\ v.t = "obj" THEN ObjU(Merge(cur.o, v.o), cur.uo \/ v.uo) ELSE v
       IN Merge(ObjPut(l, k, nv), Tail(r))

\* split text x by separator y (both code point sequences, y non-empty)
RECURSIVE SplitBy(_, _, _)
SplitBy(x, y, acc) ==
  IF x = <<>> THEN << acc >>
  ELSE IF Len(x) >= Len(y) /\ SubSeq(x, 1, Len(y)) = y
       THEN << acc >> \o SplitBy(SubSeq(x, Len(y) + 1, Len(x)), y, <<>>)
       ELSE SplitBy(Tail(x), y, Append(acc, Head(x)))

SameStrKind(x, y) == (x.t = "str" /\ y.t = "str") \/ (x.t = "bytes" /\ y.t = "bytes")

Add(x, y) ==
  CASE x.t = "null" -> y
    [] y.t = "null" -> x
    [] IsInt(x) /\ IsInt(y) -> IntAdd(x, y)
    [] IsNum(x) /\ IsNum(y) -> IF PlainNum(x) /\ PlainNum(y) THEN MkFlt(NumP(x) * NumQ(y) + NumP(y) * NumQ(x), NumQ(x) * NumQ(y)) ELSE Unk
    [] SameStrKind(x, y) -> Rewrap(x, Elems(x) \o Elems(y))
    [] x.t = "arr" /\ y.t = "arr" -> ArrV(x.a \o y.a)
    [] x.t = "obj" /\ y.t = "obj" -> ObjU(ObjPutAll(x.o, y.o), x.uo \/ y.uo)
    [] OTHER -> IFail

Sub(x, y) ==
  CASE IsInt(x) /\ IsInt(y) -> IntSub(x, y)
    [] IsNum(x) /\ IsNum(y) -> IF PlainNum(x) /\ PlainNum(y) THEN MkFlt(NumP(x) * NumQ(y) - NumP(y) * NumQ(x), NumQ(x) * NumQ(y)) ELSE Unk
    [] x.t = "arr" /\ y.t = "arr" -> ArrV(RemoveAll(x.a, y.a))
    [] OTHER -> IFail

Mul(x, y) ==
  CASE IsInt(x) /\ IsInt(y) -> IntMul(x, y)
    [] IsNum(x) /\ IsNum(y) -> IF ~(PlainNum(x) /\ PlainNum(y)) \/ DecNegZero(x) \/ DecNegZero(y) THEN Unk
                               \* IEEE sign of a zero product
                               ELSE IF NumP(x) * NumP(y) = 0 /\ (NumP(x) < 0 \/ NumP(y) < 0) THEN NZero
                               ELSE MkFlt(NumP(x) * NumP(y), NumQ(x) * NumQ(y))
    [] IsStr(x) /\ IsInt(y) -> IF IntSgn(y) <= 0 THEN Null ELSE IF IsHuge(y) \/ NumP(y) > 64 THEN Unk ELSE Rewrap(x, RepSeq(Elems(x), NumP(y)))
    [] IsInt(x) /\ IsStr(y) -> IF IntSgn(x) <= 0 THEN Null ELSE IF IsHuge(x) \/ NumP(x) > 64 THEN Unk ELSE Rewrap(y, RepSeq(Elems(y), NumP(x)))
    [] x.t = "obj" /\ y.t = "obj" -> ObjU(Merge(x.o, y.o), x.uo \/ y.uo)
    [] OTHER -> IFail

Div(x, y) ==
  CASE IsNum(x) /\ IsNum(y) ->
         IF ~(PlainNum(x) /\ PlainNum(y)) THEN Unk
         ELSE IF NumP(y) = 0 THEN   \* n / 0 follows IEEE: nan, infinite, -infinite
                (IF y.t = "dec" /\ y.ds[1] = 45 THEN Unk
                 ELSE IF NumP(x) = 0 THEN NaN ELSE IF NumP(x) > 0 THEN Inf ELSE NInf)
         ELSE IF DecNegZero(x) THEN Unk
         ELSE IF NumP(x) = 0 /\ NumP(y) < 0 THEN NZero        \* IEEE: 0.0 / negative = -0.0
         ELSE MkFlt(NumP(x) * NumQ(y), NumQ(x) * NumP(y))
    [] SameStrKind(x, y) ->
         IF Elems(x) = <<>> THEN ArrV(<<>>)
         ELSE IF Elems(y) = <<>> THEN ArrV([i \in 1..Length(x) |-> Rewrap(x, << Elems(x)[i] >>)])
         ELSE LET parts == SplitBy(Elems(x), Elems(y), <<>>)
              IN ArrV([i \in 1..Len(parts) |-> Rewrap(x, parts[i])])
    [] OTHER -> IFail

\* truncated remainder (sign of the dividend)
TRem(a, b) == LET r == Abs(a) % Abs(b) IN IF a < 0 THEN -r ELSE r

Rem(x, y) ==
  CASE IsInt(x) /\ IsInt(y) -> IF IntIsZero(y) THEN IFail
                               ELSE IF SmallInts(x, y) THEN IntV(TRem(x.n, y.n)) ELSE MkInt(ZRem(ZOf(x), ZOf(y)))
    [] IsNum(x) /\ IsNum(y) -> Unk   \* float remainder: outside the core fragment
    [] OTHER -> IFail

Neg(x) ==
  CASE IsInt(x) -> IntNeg(x)
    [] x.t = "flt" -> IF x.p = 0 THEN NZero ELSE FltV(-x.p, x.q)
    [] x.t = "nz" -> FltV(0, 1)
    [] x.t = "fsp" -> IF x.k = "inf" THEN NInf ELSE IF x.k = "ninf" THEN Inf ELSE Unk
    [] x.t = "dec" -> Unk
    [] OTHER -> IFail

MathOp(op, x, y) ==
  IF HasIErr(x) \/ HasIErr(y) THEN Unk
  ELSE CASE op = "+" -> Add(x, y)
         [] op = "-" -> Sub(x, y)
         [] op = "*" -> Mul(x, y)
         [] op = "/" -> Div(x, y)
         [] op = "%" -> Rem(x, y)

CmpOp(op, x, y) ==
  IF HasIErr(x) \/ HasIErr(y) THEN Unk
  ELSE LET c == Cmp(x, y)
       IN Bool(CASE op = "==" -> c = 0
                 [] op = "!=" -> c # 0
                 [] op = "<"  -> c < 0
                 [] op = "<=" -> c <= 0
                 [] op = ">"  -> c > 0
                 [] op = ">=" -> c >= 0)

-----------------------------------------------------------------------------
(* decimal / JSON text of a value, as code points (tostring, interpolation) *)
RECURSIVE DigitsOf(_)
DigitsOf(n) == IF n < 10 THEN << 48 + n >> ELSE Append(DigitsOf(n \div 10), 48 + (n % 10))
IntText(n) == IF n < 0 THEN << 45 >> \o DigitsOf(-n) ELSE DigitsOf(n)

HexDigit(d) == IF d < 10 THEN 48 + d ELSE 87 + d

\* JSON escape of one character of a text string
EscOne(c) ==
  CASE c = 34 -> << 92, 34 >>
    [] c = 92 -> << 92, 92 >>
    [] c = 8  -> << 92, 98 >>
    [] c = 12 -> << 92, 102 >>
    [] c = 10 -> << 92, 110 >>
    [] c = 13 -> << 92, 114 >>
    [] c = 9  -> << 92, 116 >>
    [] c >= 0 /\ c < 32 -> << 92, 117, 48, 48, HexDigit(c \div 16), HexDigit(c % 16) >>
    [] c = 127 -> << 92, 117, 48, 48, 55, 102 >>
    [] OTHER -> << c >>

RECURSIVE EscAll(_)
EscAll(cs) == IF cs = <<>> THEN <<>> ELSE EscOne(Head(cs)) \o EscAll(Tail(cs))

RECURSIVE JsonText(_), JsonSeq(_, _), JsonObj(_, _)
\* compact XJON text; Unk (as <<-1000>> marker) is handled by CanJson
JsonText(v) ==
  CASE v.t = "null" -> << 110, 117, 108, 108 >>
    [] v.t = "bool" -> IF v.b THEN << 116, 114, 117, 101 >> ELSE << 102, 97, 108, 115, 101 >>
    [] v.t = "int" -> IntText(v.n)
    [] v.t = "flt" -> IntText(v.p) \o << 46, 48 >>      \* only called when q = 1
    [] v.t = "str" -> << 34 >> \o EscAll(v.c) \o << 34 >>
    [] v.t = "arr" -> << 91 >> \o JsonSeq(v.a, 1) \o << 93 >>
    [] v.t = "obj" -> << 123 >> \o JsonObj(v.o, 1) \o << 125 >>
JsonSeq(a, i) ==
  IF i > Len(a) THEN <<>>
  ELSE (IF i > 1 THEN << 44 >> ELSE <<>>) \o JsonText(a[i]) \o JsonSeq(a, i + 1)
JsonObj(o, i) ==
  IF i > Len(o) THEN <<>>
  ELSE (IF i > 1 THEN << 44 >> ELSE <<>>) \o JsonText(o[i][1]) \o << 58 >> \o JsonText(o[i][2]) \o JsonObj(o, i + 1)

\* values whose JSON text is inside the specified fragment
RECURSIVE CanJson(_)
CanJson(v) ==
  CASE v.t \in {"null", "bool", "int"} -> TRUE
    [] v.t = "flt" -> v.q = 1 /\ Abs(v.p) < 100000
    [] v.t = "str" -> \A i \in 1..Len(v.c) : v.c[i] >= 0
    [] v.t = "arr" -> \A i \in 1..Len(v.a) : CanJson(v.a[i])
    [] v.t = "obj" -> \A i \in 1..Len(v.o) : CanJson(v.o[i][1]) /\ CanJson(v.o[i][2])
    [] OTHER -> FALSE

ToJsonV(v) == IF CanJson(v) THEN StrV(JsonText(v)) ELSE Unk
\* tostring: strings (text and bytes) become text unchanged, everything else its JSON text
ToStr(v) ==
  CASE v.t = "str" -> v
    [] v.t = "bytes" -> Unk
    [] OTHER -> ToJsonV(v)

-----------------------------------------------------------------------------
(* type names *)
TypeName(v) ==
  CASE v.t = "null" -> "null"
    [] v.t = "bool" -> "boolean"
    [] IsNum(v) -> "number"
    [] IsStr(v) -> "string"
    [] v.t = "arr" -> "array"
    [] v.t = "obj" -> "object"

CharCode(ch) ==  \* one printable ASCII character (a TLA+ string of length one) -> its code
  CASE ch = " " -> 32
    [] ch = "!" -> 33
    [] ch = "\"" -> 34
    [] ch = "#" -> 35
    [] ch = "$" -> 36
    [] ch = "%" -> 37
    [] ch = "&" -> 38
    [] ch = "'" -> 39
    [] ch = "(" -> 40
    [] ch = ")" -> 41
    [] ch = "*" -> 42
    [] ch = "+" -> 43
    [] ch = "," -> 44
    [] ch = "-" -> 45
    [] ch = "." -> 46
    [] ch = "/" -> 47
    [] ch = "0" -> 48
    [] ch = "1" -> 49
    [] ch = "2" -> 50
    [] ch = "3" -> 51
    [] ch = "4" -> 52
    [] ch = "5" -> 53
    [] ch = "6" -> 54
    [] ch = "7" -> 55
    [] ch = "8" -> 56
    [] ch = "9" -> 57
    [] ch = ":" -> 58
    [] ch = ";" -> 59
    [] ch = "<" -> 60
    [] ch = "=" -> 61
    [] ch = ">" -> 62
    [] ch = "?" -> 63
    [] ch = "@" -> 64
    [] ch = "A" -> 65
    [] ch = "B" -> 66
    [] ch = "C" -> 67
    [] ch = "D" -> 68
    [] ch = "E" -> 69
    [] ch = "F" -> 70
    [] ch = "G" -> 71
    [] ch = "H" -> 72
    [] ch = "I" -> 73
    [] ch = "J" -> 74
    [] ch = "K" -> 75
    [] ch = "L" -> 76
    [] ch = "M" -> 77
    [] ch = "N" -> 78
    [] ch = "O" -> 79
    [] ch = "P" -> 80
    [] ch = "Q" -> 81
    [] ch = "R" -> 82
    [] ch = "S" -> 83
    [] ch = "T" -> 84
    [] ch = "U" -> 85
    [] ch = "V" -> 86
    [] ch = "W" -> 87
    [] ch = "X" -> 88
    [] ch = "Y" -> 89
    [] ch = "Z" -> 90
    [] ch = "[" -> 91
    [] ch = "\\" -> 92
    [] ch = "]" -> 93
    [] ch = "^" -> 94
    [] ch = "_" -> 95
    [] ch = "`" -> 96
    [] ch = "a" -> 97
    [] ch = "b" -> 98
    [] ch = "c" -> 99
    [] ch = "d" -> 100
    [] ch = "e" -> 101
    [] ch = "f" -> 102
    [] ch = "g" -> 103
    [] ch = "h" -> 104
    [] ch = "i" -> 105
    [] ch = "j" -> 106
    [] ch = "k" -> 107
    [] ch = "l" -> 108
    [] ch = "m" -> 109
    [] ch = "n" -> 110
    [] ch = "o" -> 111
    [] ch = "p" -> 112
    [] ch = "q" -> 113
    [] ch = "r" -> 114
    [] ch = "s" -> 115
    [] ch = "t" -> 116
    [] ch = "u" -> 117
    [] ch = "v" -> 118
    [] ch = "w" -> 119
    [] ch = "x" -> 120
    [] ch = "y" -> 121
    [] ch = "z" -> 122
    [] ch = "{" -> 123
    [] ch = "|" -> 124
    [] ch = "}" -> 125
    [] ch = "~" -> 126
\* TLA+ string literal -> code points (TLC evaluates Len and SubSeq on strings)
\* the Unicode property White_Space (PropList.txt): what trim / ltrim / rtrim remove
IsWhiteSpace(c) == (c >= 9 /\ c <= 13) \/ c \in {32, 133, 160, 5760, 8232, 8233, 8239, 8287, 12288} \/ (c >= 8192 /\ c <= 8202)

Ascii(s) == [i \in 1..Len(s) |-> CharCode(SubSeq(s, i, i))]
=============================================================================

SPECIFICATION Spec
CONSTANTS
  NFmc = 3
  MaxW = 2
INVARIANT TypeOK
INVARIANT Atomic
INVARIANT OnlyAfterSuccess
INVARIANT InOrder
INVARIANT Terminated
INVARIANT ModeWindow
INVARIANT Progress
CHECK_DEADLOCK FALSE

----------------------------- MODULE MC_Codec -----------------------------
(***************************************************************************)
(* C07 and C13: writer / string codecs over all short strings of an        *)
(* alphabet of structurally significant characters.  For every case the    *)
(* expected ENCODING comes from JaqCodec, and the expected result of        *)
(* encoding followed by decoding is the original value.                    *)
(***************************************************************************)
EXTENDS JaqCodec, Json

CONSTANTS Suite, Size
VARIABLES cs, done

\* ' " \ , tab nl cr NUL & < > % + space = ; $ ` a A ~ / a-umlaut euro emoji \xff \x80 \x1f \x7f
Meta == {39, 34, 92, 44, 9, 10, 13, 0, 38, 60, 62, 37, 43, 32, 61, 59, 36, 96, 97, 65, 126, 47, 228, 8364, 128578, -255, -128, 31, 127, 8, 12}
RECURSIVE SeqsUpTo(_, _)
SeqsUpTo(A, n) == IF n = 0 THEN {<<>>} ELSE SeqsUpTo(A, n - 1) \cup {Append(s, a) : s \in SeqsUpTo(A, n - 1), a \in A}
\* for Size >= 3 the alphabet is reduced to the characters with a treatment of their own
Meta3 == {34, 92, 47, 0, 10, 31, 127, 97, 228, 128578, -255, -128, 38, 37, 39}
Strs == {StrV(s) : s \in SeqsUpTo(IF Size >= 3 THEN Meta3 ELSE Meta, Size)}
SV == TVar("s")
P(t) == TPipe(SV, t)
V1(v) == << << "s", v >> >>
Case(prog, vars, expect) == [prog |-> prog, vars |-> vars, input |-> Null, expect |-> expect]
OkS(v) == [o |-> << v >>, e |-> [k |-> "ok"]]
ErrAny == [o |-> <<>>, e |-> [k |-> "err", v |-> IErr]]
Res(cps) == IF cps = ShFail THEN ErrAny ELSE OkS(StrV(cps))

Valid(s) == \A i \in 1..Len(s.c) : s.c[i] >= 0       \* valid UTF-8

\* values for the JSON writer: all number representations, strings, byte strings, nesting, arbitrary keys in any order
JVals ==
  {Null, True, False, IntV(0), IntV(-7), BigV(FALSE, << 1,8,4,4,6,7,4,4,0,7,3,7,0,9,5,5,1,6,1,6 >>), BigV(TRUE, << 9,2,2,3,3,7,2,0,3,6,8,5,4,7,7,5,8,0,9 >>),
   FltV(1, 1), FltV(3, 2), FltV(-1, 8), FltV(1, 1024), FltV(100000, 1), NZero, NaN, Inf, NInf,
   DecV(<< 49, 46, 49, 48 >>), DecV(<< 49, 101, 49, 48, 48, 48 >>), DecV(<< 48, 46, 48 >>), DecV(<< 49, 69, 45, 50 >>),
   BytesV(<<>>), BytesV(<< 97, 0, 255, 34, 92, 10, 127, 128 >>),
   ArrV(<<>>), ObjV(<<>>), ArrV(<< ArrV(<<>>), ObjV(<<>>), Null >>),
   ObjV(<< << StrV(<< 98 >>), IntV(1) >>, << StrV(<< 97 >>), ArrV(<< IntV(2), StrV(<< 34 >>) >>) >> >>),
   ObjV(<< << IntV(1), Null >>, << Null, IntV(1) >>, << ArrV(<< IntV(1) >>), ObjV(<< << StrV(<<>>), StrV(<< -255 >>) >> >>) >>, << BytesV(<< 1 >>), FltV(1, 2) >> >>)}

\* what reading the written text back gives: a float literal is kept as decimal literal
RECURSIVE RT(_)
RT(v) ==
  CASE v.t = "flt" -> DecV(NumText(v))
    [] v.t = "nz" -> DecV(NumText(v))
    [] v.t = "arr" -> ArrV([i \in 1..Len(v.a) |-> RT(v.a[i])])
    [] v.t = "obj" -> ObjV([i \in 1..Len(v.o) |-> << RT(v.o[i][1]), RT(v.o[i][2]) >>])
    [] OTHER -> v

Cases ==
  CASE Suite = "json-str" ->
         {Case(P(TC0("tojson")), V1(s), OkS(StrV(TextOf(s)))) : s \in Strs}
         \cup {Case(P(TPipe(TC0("tojson"), TC0("fromjson"))), V1(s), OkS(s)) : s \in Strs}
         \cup {Case(P(TPipe(TObj(<< TE(TId, TNum(1)) >>), TPipe(TC0("tojson"), TC0("fromjson")))), V1(s), OkS(ObjV(<< << s, IntV(1) >> >>))) : s \in Strs}
         \cup {Case(P(TPipe(TC0("tobytes"), TPipe(TC0("tojson"), TC0("fromjson")))), V1(s), OkS(BytesV(Utf8(s.c)))) : s \in Strs}
    [] Suite = "json-val" ->
         {Case(P(TC0("tojson")), V1(v), OkS(StrV(TextOf(v)))) : v \in JVals}
         \cup {Case(P(TPipe(TC0("tojson"), TC0("fromjson"))), V1(v), OkS(RT(v))) : v \in JVals}
         \cup {Case(P(TPipe(TC0("tojson"), TPipe(TC0("fromjson"), TC0("tojson")))), V1(v), OkS(StrV(TextOf(v)))) : v \in JVals}
         \cup {Case(P(TC0("tostring")), V1(v), OkS(IF v.t = "bytes" THEN StrV(v.y) ELSE StrV(TextOf(v)))) : v \in JVals \ {BytesV(<< 97, 0, 255, 34, 92, 10, 127, 128 >>)}}
    [] Suite = "codec" ->
         {Case(P(TPipe(TC0("explode"), TC0("implode"))), V1(s), OkS(s)) : s \in Strs}
         \cup {Case(P(TPipe(TC0("tobytes"), TC0("tostring"))), V1(s), OkS(s)) : s \in Strs}
         \cup {Case(P(TC0("@base64")), V1(s), OkS(StrV(Base64(Utf8(s.c))))) : s \in Strs}
         \cup {Case(P(TPipe(TC0("@base64"), TPipe(TC0("@base64d"), TC0("tobytes")))), V1(s), OkS(BytesV(Utf8(s.c)))) : s \in Strs}
         \cup {Case(P(TC0("@uri")), V1(s), OkS(StrV(PercentEnc(Utf8(s.c))))) : s \in Strs}
         \cup {Case(P(TPipe(TC0("@uri"), TPipe(TC0("@urid"), TC0("tobytes")))), V1(s), OkS(BytesV(Utf8(s.c)))) : s \in Strs}
         \cup {Case(P(TC0("@html")), V1(s), OkS(StrV(HtmlEnc(s.c)))) : s \in Strs}
         \cup {Case(P(TPipe(TC0("@html"), TC0("@htmld"))), V1(s), OkS(s)) : s \in Strs}
         \cup {Case(P(TC0("@sh")), V1(s), Res(Sh(s))) : s \in Strs}
         \cup {Case(P(TC0("@json")), V1(s), OkS(StrV(TextOf(s)))) : s \in Strs}
         \cup {Case(P(TC0("@text")), V1(s), OkS(s)) : s \in Strs}
         \cup {Case(P(TPipe(TC0("ascii_downcase"), TC0("ascii_upcase"))), V1(s), OkS(StrV([i \in 1..Len(s.c) |-> IF s.c[i] >= 97 /\ s.c[i] <= 122 THEN s.c[i] - 32 ELSE s.c[i]]))) : s \in Strs}
         \cup {Case(P(TC0("length")), V1(s), OkS(IntV(Len(s.c)))) : s \in Strs}
         \cup {Case(P(TC0("utf8bytelength")), V1(s), OkS(IntV(Len(Utf8(s.c))))) : s \in Strs}
         \* slices reassemble the string, character by character
         \cup {Case(P(TBin("+", TPath(TId, << PUpto(TNum(1)) >>), TPath(TId, << PFrom(TNum(1)) >>))), V1(s), OkS(s)) : s \in Strs}
         \cup {Case(P(TArr(TPipe(TC1("range", TC0("length")), TAs(TId, "i", TPath(SV, << PRng(TVar("i"), TBin("+", TVar("i"), TNum(1))) >>))))), V1(s),
                    OkS(ArrV([i \in 1..Len(s.c) |-> StrV(<< s.c[i] >>)]))) : s \in Strs}
    [] Suite = "codec-fmt" ->
         \* format strings pipe the interpolated values through the formatter; rows for @csv / @tsv / @sh
         {Case([k |-> "str", fmt |-> f, parts |-> << [p |-> "s", c |-> << 120, 39, 32 >>], [p |-> "f", f |-> SV], [p |-> "s", c |-> << 38, 34 >>] >>], V1(s),
               LET enc == CASE f = "@sh" -> Sh(s) [] f = "@html" -> HtmlEnc(s.c) [] f = "@uri" -> PercentEnc(Utf8(s.c)) [] f = "@base64" -> Base64(Utf8(s.c))
                            [] f = "@json" -> TextOf(s) [] f = "@text" -> s.c
               IN OkS(StrV(<< 120, 39, 32 >> \o enc \o << 38, 34 >>))) : f \in {"@sh", "@html", "@uri", "@base64", "@json", "@text"}, s \in Strs}
         \cup {Case(TPipe(TArr(TComma(SV, TComma(TVar("t"), TComma(TNum(1), TComma(TC0("null"), TC0("true")))))), TC0(f)), << << "s", s >>, << "t", t >> >>,
                    LET row == ArrV(<< s, t, IntV(1), Null, True >>) IN Res(CASE f = "@csv" -> Csv(row) [] f = "@tsv" -> Tsv(row) [] f = "@sh" -> Sh(row))) :
                 f \in {"@csv", "@tsv", "@sh"}, s \in {StrV(x) : x \in SeqsUpTo(Meta, 1)}, t \in {StrV(x) : x \in SeqsUpTo(Meta, 1)}}
         \cup {Case(TPipe(SV, TC0(f)), V1(v), ErrAny) : f \in {"@csv", "@tsv", "@sh"}, v \in {ObjV(<<>>), ArrV(<< ArrV(<<>>) >>), ArrV(<< ObjV(<<>>) >>)}}

\* strings built from tokens that look like the encoders' output
RECURSIVE TokStrs(_, _)
TokStrs(T, n) == IF n = 0 THEN {<<>>} ELSE TokStrs(T, n - 1) \cup {s \o t : s \in TokStrs(T, n - 1), t \in T}
HtmlToks == {<< 38 >>, << 97, 109, 112, 59 >>, << 108, 116, 59 >>, << 38, 97, 109, 112, 59 >>, << 38, 108, 116, 59 >>, << 38, 113, 117, 111, 116, 59 >>, << 60 >>, << 59 >>, << 97 >>, << 38, 103, 116 >>, << 39 >>}
UriToks == {<< 37 >>, << 50 >>, << 53 >>, << 52, 49 >>, << 37, 50, 53 >>, << 37, 52, 49 >>, << 37, 101, 52 >>, << 37, 67, 51, 37, 65, 52 >>, << 43 >>, << 37, 122, 122 >>, << 228 >>, << 37, 48, 48 >>, << 97 >>}
B64Toks == {<< 81 >>, << 85 >>, << 70 >>, << 61 >>, << 47 >>, << 43 >>, << 45 >>, << 32 >>, << 82 >>, << 10 >>, << 228 >>}
TestEq(dec, conv, v) == TTry(TBin("==", TPipe(TC0(dec), conv), TVar("w")), TC0("true"))
DecCases ==
  \* encode then decode over strings that contain encoder output
  {Case(P(TPipe(TC0("@html"), TC0("@htmld"))), V1(StrV(s)), OkS(StrV(s))) : s \in TokStrs(HtmlToks, Size)}
  \cup {Case(P(TC0("@htmld")), V1(StrV(HtmlEnc(s))), OkS(StrV(s))) : s \in TokStrs(HtmlToks, Size)}
  \cup {Case(P(TC0("@htmld")), V1(StrV(s)), OkS(StrV(HtmlDec(s)))) : s \in {HtmlEnc(x) \o HtmlEnc(y) : x \in TokStrs(HtmlToks, 1), y \in TokStrs(HtmlToks, Size)}}
  \cup {Case(P(TPipe(TC0("@uri"), TPipe(TC0("@urid"), TC0("tobytes")))), V1(StrV(s)), OkS(BytesV(Utf8(s)))) : s \in TokStrs(UriToks, Size)}
  \cup {Case(P(TPipe(TC0("@base64"), TPipe(TC0("@base64d"), TC0("tobytes")))), V1(StrV(s)), OkS(BytesV(Utf8(s)))) : s \in TokStrs(UriToks, Size) \cup TokStrs(B64Toks, Size)}
  \* @urid on arbitrary text: well-formed escapes are decoded; text with a stray % is rejected or kept, never cut
  \cup {LET r == PercentDec(Utf8(s)) IN
         IF r.wf THEN Case(P(TPipe(TC0("@urid"), TC0("tobytes"))), V1(StrV(s)), OkS(BytesV(r.y)))
         ELSE Case(P(TestEq("@urid", TC0("tobytes"), 0)), << << "s", StrV(s) >>, << "w", BytesV(r.y) >> >>, OkS(True)) : s \in TokStrs(UriToks, Size)}
  \* @base64d on arbitrary text: canonical Base64 is decoded, text that is not Base64 is rejected, never cut
  \cup {LET r == Base64Dec(s) IN
         CASE r.k = "ok" -> Case(P(TPipe(TC0("@base64d"), TC0("tobytes"))), V1(StrV(s)), OkS(BytesV(r.y)))
           [] r.k = "bad" -> Case(P(TC0("@base64d")), V1(StrV(s)), ErrAny)
           [] r.k = "lax" -> Case(P(TestEq("@base64d", TC0("tobytes"), 0)), << << "s", StrV(s) >>, << "w", BytesV(r.y) >> >>, OkS(True)) : s \in TokStrs(B64Toks, Size + 2)}
\* split / join
SjAlpha == {97, 44, 228, -128, 98}
SjCases == {Case(P(TPipe(TC1("split", TVar("x")), TC1("join", TVar("x")))), << << "s", StrV(s) >>, << "x", StrV(x) >> >>, OkS(StrV(s))) :
              s \in SeqsUpTo(SjAlpha, Size + 1) \ {<<>>}, x \in SeqsUpTo(SjAlpha, 2) \ {<<>>}}
           \cup {Case(P(TPipe(TC1("split", TStr(<<>>)), TC1("join", TStr(<<>>)))), V1(StrV(s)), OkS(StrV(s))) : s \in SeqsUpTo(SjAlpha, Size + 1) \ {<<>>}}

RV(s) == TStr(s)
Regexes == {<< 97 >>, << 228 >>, << 8364, 124, 97 >>, << 91, 94, 97, 93 >>, << 46 >>, << 97, 32 >>, << 32, 43 >>}
\* offsets and lengths of matches count characters: .[m.offset : m.offset + m.length] == m.string
MatchInv(re) == TPipe(SV, TAs(TId, "s", TC2("all",
                  TAs(TCall("match", << RV(re), TStr(<< 103 >>) >>), "m",
                      TBin("==", TPath(TVar("s"), << PRng(TPath(TVar("m"), << PIdx(TStr(<< 111, 102, 102, 115, 101, 116 >>)) >>),
                                                           TBin("+", TPath(TVar("m"), << PIdx(TStr(<< 111, 102, 102, 115, 101, 116 >>)) >>),
                                                                     TPath(TVar("m"), << PIdx(TStr(<< 108, 101, 110, 103, 116, 104 >>)) >>))) >>),
                                 TPath(TVar("m"), << PIdx(TStr(<< 115, 116, 114, 105, 110, 103 >>)) >>))), TId)))
\* the unmatched parts (splits) interleaved with the matches reassemble the string
Reassemble(re) ==
  TPipe(SV, TAs(TId, "s", TAs(TArr(TPipe(TCall("match", << RV(re), TStr(<< 103 >>) >>), TPath(TId, << PIdx(TStr(<< 115, 116, 114, 105, 110, 103 >>)) >>))), "m",
    TAs(TArr(TC1("splits", RV(re))), "p",
        TBin("==", TPipe(TArr(TPipe(TC1("range", TPipe(TVar("p"), TC0("length"))), TAs(TId, "i",
                            TBin("+", TPath(TVar("p"), << PIdx(TVar("i")) >>), TBin("//", TPath(TVar("m"), << PIdx(TVar("i")) >>), TStr(<<>>)))))), TC0("add")),
                   TVar("s"))))))
ValidStrs == {s \in Strs : Valid(s)}
RegexCases == {Case(MatchInv(re), V1(s), OkS(True)) : re \in Regexes, s \in ValidStrs}
              \cup {Case(Reassemble(re), V1(s), OkS(True)) : re \in Regexes, s \in {x \in ValidStrs : x.c # <<>>}}

AllCases == IF Suite = "regex" THEN RegexCases ELSE IF Suite = "codec-dec" THEN DecCases ELSE IF Suite = "split-join" THEN SjCases ELSE Cases
Init == cs \in AllCases /\ done = FALSE
Emit == ~done /\ done' = TRUE /\ UNCHANGED cs /\ PrintT(<< "VEC", ToJson(cs) >>)
Spec == Init /\ [][Emit]_<< cs, done >>
TypeOK == cs.expect.e.k \in {"ok", "err"}
=============================================================================

----------------------------- MODULE JaqModules -----------------------------
(***************************************************************************)
(* Modules (manual, advanced "Modules"; docs/cli.dj "--library-path";      *)
(* property C16).                                                          *)
(*                                                                         *)
(* 1. Where a file is looked up (Find): the directive's `search` paths,    *)
(*    relative to the directory of the module that contains the directive  *)
(*    (the working directory for an inline main program), before the       *)
(*    command-line library paths (relative to the working directory); `~`  *)
(*    and `$ORIGIN` expanded; `.jq` / `.json` appended only when no        *)
(*    extension is given; absolute paths refused; the first candidate that *)
(*    is a file is taken.  (The manual lists the library paths first; the  *)
(*    property, and the code, have the directive's paths first.)           *)
(* 2. How the graph is loaded: a state machine, one action per step of the *)
(*    loader (jaq-core/src/load/mod.rs, Loader::find): Resolve a directive *)
(*    to ReadErr / Reuse(id) / Cycle / Enter, and Exit(id) when a module's *)
(*    directives are done.  A module is identified by its file; it is      *)
(*    entered at most once; identifiers are given in order of completion.  *)
(*    An error does not stop the loader (errors are collected).            *)
(* 3. What the loaded program means: Inline, the single program obtained   *)
(*    by replacing every include / import by the definitions it brings in  *)
(*    (renamed apart, every call and variable resolved by the rules of the *)
(*    manual), evaluated by JaqSem.                                        *)
(*                                                                         *)
(* A path is a sequence of names below the root of a scratch tree.         *)
(***************************************************************************)
EXTENDS JaqCodec

Cwd       == << "w" >>
HomeDir   == << "h" >>
OriginDir == << "o", "bin" >>

RECURSIVE NormAcc(_, _)
NormAcc(p, acc) ==
  IF p = <<>> THEN acc
  ELSE IF Head(p) = "." THEN NormAcc(Tail(p), acc)
  ELSE IF Head(p) = ".." THEN NormAcc(Tail(p), IF acc = <<>> THEN <<>> ELSE SubSeq(acc, 1, Len(acc) - 1))
  ELSE NormAcc(Tail(p), Append(acc, Head(p)))
Norm(p) == NormAcc(p, <<>>)

\* a search path: [base |-> "rel" | "home" | "origin", c |-> names]
SP(base, c) == [base |-> base, c |-> c]
ExpandSP(sp, dir) == Norm((CASE sp.base = "home" -> HomeDir [] sp.base = "origin" -> OriginDir [] OTHER -> dir) \o sp.c)
DefaultL == << SP("home", << ".jq" >>), SP("origin", << "..", "lib", "jq" >>), SP("origin", << "..", "lib" >>) >>

\* a directive: [kind |-> "inc" | "imp" | "dat", sub |-> names, name, ext, as, search |-> Seq(SP), abs |-> BOOLEAN]
Dir(kind, sub, name, ext, as, search) == [kind |-> kind, sub |-> sub, name |-> name, ext |-> ext, as |-> as, search |-> search, abs |-> FALSE]
FileName(d) == IF d.ext = "" THEN d.name \o (IF d.kind = "dat" THEN ".json" ELSE ".jq") ELSE d.name \o "." \o d.ext
Candidates(d, dir, L) ==
  LET LL == IF L = <<>> THEN DefaultL ELSE L IN
  [i \in 1..Len(d.search) |-> ExpandSP(d.search[i], dir)] \o [i \in 1..Len(LL) |-> ExpandSP(LL[i], Cwd)]
PathIn(d, c) == Norm(c \o d.sub \o << FileName(d) >>)
\* index of the first candidate directory that holds the file, 0 if none (or if the path is absolute)
Find(d, dir, L, files) ==
  IF d.abs THEN 0
  ELSE LET cs == Candidates(d, dir, L)
           hit == {i \in 1..Len(cs) : PathIn(d, cs[i]) \in files}
       IN IF hit = {} THEN 0 ELSE CHOOSE i \in hit : \A j \in hit : i <= j
Found(d, dir, L, files) == PathIn(d, Candidates(d, dir, L)[Find(d, dir, L, files)])
DirOf(path) == SubSeq(path, 1, Len(path) - 1)

-----------------------------------------------------------------------------
(* 2. the loader *)

\* cs: the case - [files |-> set of paths that are files, mod |-> set of [path, dirs, defs], data |-> set of [path, vals],
\*                 L |-> Seq(SP), main |-> [dir, dirs, defs, body], globals |-> Seq(<< name, value >>)]
VARIABLES cs,
          mods,     \* loaded modules in order of completion: Seq([path, tg, ok]); tg: Seq([id, as]) - the resolved non-data directives
          open,     \* stack of the paths of the modules being loaded
          work,     \* stack of frames [path, di, tg, ok]; the bottom frame is the main program (path <<>>)
          ev,       \* history: the loader's steps
          phase     \* "load" | "done"
lvars == << cs, mods, open, work, ev, phase >>

ModAt(path) == CHOOSE m \in cs.mod : m.path = path
DirsOf(path) == IF path = <<>> THEN cs.main.dirs ELSE ModAt(path).dirs
DirForFile(path) == IF path = <<>> THEN cs.main.dir ELSE DirOf(path)
Top == work[Len(work)]
SetTop(fr) == [work EXCEPT ![Len(work)] = fr]
ModIndex(p) == LET A == {j \in 1..Len(mods) : mods[j].path = p} IN IF A = {} THEN 0 ELSE CHOOSE j \in A : TRUE

LoadInit(c) ==
  /\ cs = c /\ mods = <<>> /\ open = <<>> /\ ev = <<>> /\ phase = "load"
  /\ work = << [path |-> <<>>, di |-> 1, tg |-> <<>>, ok |-> TRUE] >>

\* the directive at hand is a data import: nothing to load (data files are looked up after loading)
SkipData ==
  /\ phase = "load" /\ Top.di <= Len(DirsOf(Top.path)) /\ DirsOf(Top.path)[Top.di].kind = "dat"
  /\ work' = SetTop([Top EXCEPT !.di = @ + 1]) /\ UNCHANGED << cs, mods, open, ev, phase >>

Pending == phase = "load" /\ Top.di <= Len(DirsOf(Top.path)) /\ DirsOf(Top.path)[Top.di].kind # "dat"
CurDir == DirsOf(Top.path)[Top.di]
CurFind == Find(CurDir, DirForFile(Top.path), cs.L, cs.files)
CurPath == Found(CurDir, DirForFile(Top.path), cs.L, cs.files)

ReadErr ==
  /\ Pending /\ CurFind = 0
  /\ work' = SetTop([Top EXCEPT !.di = @ + 1, !.ok = FALSE]) /\ ev' = Append(ev, << "ReadErr", 0 >>)
  /\ UNCHANGED << cs, mods, open, phase >>
Reuse ==
  /\ Pending /\ CurFind # 0 /\ ModIndex(CurPath) # 0
  /\ work' = SetTop([Top EXCEPT !.di = @ + 1, !.tg = Append(@, [id |-> ModIndex(CurPath), as |-> CurDir.as])])
  /\ ev' = Append(ev, << "Reuse", ModIndex(CurPath) >>)
  /\ UNCHANGED << cs, mods, open, phase >>
Cycle ==
  /\ Pending /\ CurFind # 0 /\ ModIndex(CurPath) = 0 /\ \E i \in 1..Len(open) : open[i] = CurPath
  /\ work' = SetTop([Top EXCEPT !.di = @ + 1, !.ok = FALSE]) /\ ev' = Append(ev, << "Cycle", 0 >>)
  /\ UNCHANGED << cs, mods, open, phase >>
Enter ==
  /\ Pending /\ CurFind # 0 /\ ModIndex(CurPath) = 0 /\ ~\E i \in 1..Len(open) : open[i] = CurPath
  /\ ev' = Append(ev, << "Enter", Len(open) >>)
  /\ open' = Append(open, CurPath)
  /\ work' = Append(work, [path |-> CurPath, di |-> 1, tg |-> <<>>, ok |-> TRUE])
  /\ UNCHANGED << cs, mods, phase >>
\* all directives of the module on top are done: it gets the next identifier and its loader continues
Exit ==
  /\ phase = "load" /\ Len(work) > 1 /\ Top.di > Len(DirsOf(Top.path))
  /\ mods' = Append(mods, [path |-> Top.path, tg |-> Top.tg, ok |-> Top.ok])
  /\ open' = SubSeq(open, 1, Len(open) - 1)
  /\ ev' = Append(ev, << "Exit", Len(mods) + 1 >>)
  /\ LET par == work[Len(work) - 1] d == DirsOf(par.path)[par.di] IN
     work' = Append(SubSeq(work, 1, Len(work) - 2), [par EXCEPT !.di = @ + 1, !.tg = Append(@, [id |-> Len(mods) + 1, as |-> d.as])])
  /\ UNCHANGED << cs, phase >>
Finish ==
  /\ phase = "load" /\ Len(work) = 1 /\ Top.di > Len(DirsOf(<<>>))
  /\ phase' = "done" /\ UNCHANGED << cs, mods, open, work, ev >>

LoadNext == SkipData \/ ReadErr \/ Reuse \/ Cycle \/ Enter \/ Exit \/ Finish

\* invariants of the loader
NoDuplicates == \A i, j \in 1..Len(mods) : mods[i].path = mods[j].path => i = j
OpenIsStack == /\ Len(open) = Len(work) - 1
               /\ \A i \in 1..Len(open) : open[i] = work[i + 1].path
               /\ \A i, j \in 1..Len(open) : open[i] = open[j] => i = j
               /\ \A i \in 1..Len(open) : ModIndex(open[i]) = 0
EnteredOnce == \A p \in {m.path : m \in cs.mod} : Cardinality({i \in 1..Len(ev) : ev[i][1] = "Exit" /\ mods[ev[i][2]].path = p}) <= 1
CompletionOrder == \A j \in 1..Len(mods) : \A i \in 1..Len(mods[j].tg) : mods[j].tg[i].id < j
CycleIsError == (phase = "done" /\ \E i \in 1..Len(ev) : ev[i][1] = "Cycle") => (\E j \in 1..Len(mods) : ~mods[j].ok) \/ ~Top.ok
Terminates == phase = "load" => ENABLED LoadNext
\* liveness (checked with WF_lvars(LoadNext) in MC_Modules): loading ends, whatever the graph - also a cyclic one
LoadEnds == <>(phase = "done")
Bounded == Len(ev) <= 2 * Cardinality(cs.mod) + Len(cs.main.dirs) + 4 * Cardinality(cs.mod) * 4

-----------------------------------------------------------------------------
(* 3. meaning of the loaded program *)

MainIx == Len(mods) + 1
TgOf(j) == IF j = MainIx THEN Top.tg ELSE mods[j].tg
PathOfM(j) == IF j = MainIx THEN <<>> ELSE mods[j].path
DefsOf(j) == IF j = MainIx THEN cs.main.defs ELSE ModAt(mods[j].path).defs
LoadOk == Top.ok /\ \A j \in 1..Len(mods) : mods[j].ok

\* data imports: per module, in order; each is found or not
DataDirs(j) == LET ds == DirsOf(PathOfM(j)) IN SelectSeq(ds, LAMBDA d : d.kind = "dat")
DataFind(j, d) == Find(d, DirForFile(PathOfM(j)), cs.L, cs.files)
DataOk == \A j \in 1..MainIx : \A i \in 1..Len(DataDirs(j)) : DataFind(j, DataDirs(j)[i]) # 0
DataVal(j, d) == LET p == Found(d, DirForFile(PathOfM(j)), cs.L, cs.files) IN ArrV((CHOOSE x \in cs.data : x.path = p).vals)

Nm(j, pos, name) == "m" \o ToString(j) \o "_" \o ToString(pos) \o "_" \o name
DNm(j, i, x) == "d" \o ToString(j) \o "_" \o ToString(i) \o "_" \o x
LastDef(j, upto, f, n) ==
  LET ds == DefsOf(j) A == {p \in 1..upto : ds[p].name = f /\ Len(ds[p].params) = n} IN IF A = {} THEN 0 ELSE SetMax(A)
RECURSIVE InclSearch(_, _, _, _)
\* included modules, the last one first
InclSearch(tg, i, f, n) ==
  IF i = 0 THEN "?"
  ELSE IF tg[i].as = "" /\ LastDef(tg[i].id, Len(DefsOf(tg[i].id)), f, n) # 0
       THEN Nm(tg[i].id, LastDef(tg[i].id, Len(DefsOf(tg[i].id)), f, n), f)
       ELSE InclSearch(tg, i - 1, f, n)
\* a call f/n in definition number k of module j (k = number of definitions + 1 for a main body)
ResolveF(j, k, f, n) ==
  LET own == LastDef(j, IF k > Len(DefsOf(j)) THEN Len(DefsOf(j)) ELSE k, f, n) IN
  IF own # 0 THEN Nm(j, own, f)
  ELSE LET r == InclSearch(TgOf(j), Len(TgOf(j)), f, n) IN
       IF r # "?" THEN r ELSE IF FindF(Prelude, f, n) # 0 THEN f ELSE "?"
ResolveQ(j, q, f, n) ==
  LET tg == TgOf(j) A == {i \in 1..Len(tg) : tg[i].as = q} IN
  IF A = {} THEN "?"
  ELSE LET id == tg[SetMax(A)].id p == LastDef(id, Len(DefsOf(id)), f, n) IN IF p = 0 THEN "?" ELSE Nm(id, p, f)
ResolveV(j, x, lv) ==
  IF x \in lv THEN x
  ELSE LET dd == DataDirs(j) A == {i \in 1..Len(dd) : dd[i].as = x} IN
       IF A # {} THEN DNm(j, SetMax(A), x)
       ELSE IF \E i \in 1..Len(cs.globals) : cs.globals[i][1] = x THEN x ELSE "?"

Undef == [k |-> "undef"]
RECURSIVE Ren(_, _, _, _, _)
\* t in module j, definition k, with local filter names lf and local variables lv
Ren(t, j, k, lf, lv) ==
  CASE t.k \in {"id", "num", "str", "recurse"} -> t
    [] t.k = "var" -> LET r == ResolveV(j, t.x, lv) IN IF r = "?" THEN Undef ELSE [t EXCEPT !.x = r]
    [] t.k = "call" ->
         IF t.args = <<>> /\ t.f \in lf THEN t
         ELSE LET r == ResolveF(j, k, t.f, Len(t.args)) IN
              IF r = "?" THEN Undef ELSE [t EXCEPT !.f = r, !.args = [i \in 1..Len(t.args) |-> Ren(t.args[i], j, k, lf, lv)]]
    [] t.k = "qcall" ->
         LET r == ResolveQ(j, t.q, t.f, Len(t.args)) IN
         IF r = "?" THEN Undef ELSE [k |-> "call", f |-> r, args |-> [i \in 1..Len(t.args) |-> Ren(t.args[i], j, k, lf, lv)]]
    [] t.k = "arr" -> IF "f" \in DOMAIN t THEN [t EXCEPT !.f = Ren(t.f, j, k, lf, lv)] ELSE t
    [] t.k = "bin" -> [t EXCEPT !.l = Ren(t.l, j, k, lf, lv), !.r = Ren(t.r, j, k, lf, lv)]
    [] t.k = "as" -> [t EXCEPT !.l = Ren(t.l, j, k, lf, lv), !.r = Ren(t.r, j, k, lf, lv \cup {t.pat.x})]
    [] t.k = "try" -> [t EXCEPT !.f = Ren(t.f, j, k, lf, lv), !.c = Ren(t.c, j, k, lf, lv)]

RECURSIVE HasUndef(_)
HasUndef(t) ==
  CASE t.k = "undef" -> TRUE
    [] t.k = "call" -> \E i \in 1..Len(t.args) : HasUndef(t.args[i])
    [] t.k = "arr" -> "f" \in DOMAIN t /\ HasUndef(t.f)
    [] t.k = "bin" -> HasUndef(t.l) \/ HasUndef(t.r)
    [] t.k = "as" -> HasUndef(t.l) \/ HasUndef(t.r)
    [] t.k = "try" -> HasUndef(t.f) \/ HasUndef(t.c)
    [] OTHER -> FALSE

RenDef(j, k) ==
  LET d == DefsOf(j)[k]
      lf == {d.params[i].n : i \in {i \in 1..Len(d.params) : ~d.params[i].var}}
      lv == {d.params[i].n : i \in {i \in 1..Len(d.params) : d.params[i].var}}
  IN [name |-> Nm(j, k, d.name), params |-> d.params, body |-> Ren(d.body, j, k, lf, lv)]
RECURSIVE AllDefs(_)
AllDefs(j) == IF j = 0 THEN <<>> ELSE AllDefs(j - 1) \o [k \in 1..Len(DefsOf(j)) |-> RenDef(j, k)]
InlineBody(b) == Ren(b, MainIx, Len(cs.main.defs) + 1, {}, {})
InlineDefs == AllDefs(MainIx)
Inline(b) == IF InlineDefs = <<>> THEN InlineBody(b) ELSE TDefs(InlineDefs, InlineBody(b))
InlineVars ==
  cs.globals \o
  LET RECURSIVE DV(_)
      DV(j) == IF j = 0 THEN <<>> ELSE DV(j - 1) \o [i \in 1..Len(DataDirs(j)) |-> << DNm(j, i, DataDirs(j)[i].as), DataVal(j, DataDirs(j)[i]) >>]
  IN DV(MainIx)
CompileOk(b) == ~HasUndef(InlineBody(b)) /\ \A i \in 1..Len(InlineDefs) : ~HasUndef(InlineDefs[i].body)

\* outcome of the whole run (with --null-input): "load" error, "compile" error, or the output stream
Outcome(b) ==
  IF ~LoadOk \/ ~DataOk THEN [k |-> "loaderr"]
  ELSE IF ~CompileOk(b) THEN [k |-> "compileerr"]
  ELSE [k |-> "run", s |-> RunProgV(Inline(b), InlineVars, Null)]
=============================================================================

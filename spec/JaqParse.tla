----------------------------- MODULE JaqParse -----------------------------
(***************************************************************************)
(* The documented grammar of binary operators (manual, "Binary (complex)"  *)
(* / "Binary (simple)", "Variable binding", "Error suppression"):          *)
(*                                                                         *)
(*   |  <  ,  <  as $x |  <  = |= += -= *= /= %= //=  <  //  <  or  <  and *)
(*      <  == !=  <  < <= > >=  <  + -  <  * /  <  %                       *)
(*   `|` and the assignments group to the right, all others to the left;   *)
(*   bindings, def, label bodies extend as far right as possible;          *)
(*   postfix ? and path suffixes bind tighter than prefix -.               *)
(*                                                                         *)
(* Render(t, mode) is the declarative reading of that table: the token     *)
(* sequence of a syntax tree with exactly the parentheses the table makes  *)
(* necessary ("min"), with all of them ("full"), or with redundant ones    *)
(* around the operands ("red").  Parsing any of them must give t back.     *)
(***************************************************************************)
EXTENDS JaqLib

Prec(op) ==
  CASE op = "|" -> 0
    [] op = "," -> 1
    [] op = "as" -> 2
    [] op \in {"=", "|=", "+=", "-=", "*=", "/=", "%=", "//="} -> 3
    [] op = "//" -> 4
    [] op = "or" -> 5
    [] op = "and" -> 6
    [] op \in {"==", "!="} -> 7
    [] op \in {"<", "<=", ">", ">="} -> 8
    [] op \in {"+", "-"} -> 9
    [] op \in {"*", "/"} -> 10
    [] op = "%" -> 11

RightAssoc(op) == op \in {"|", "as", "=", "|=", "+=", "-=", "*=", "/=", "%=", "//="}

BinOps == {"|", ",", "//", "or", "and", "==", "!=", "<", "<=", ">", ">=", "+", "-", "*", "/", "%",
           "=", "|=", "+=", "-=", "*=", "/=", "%=", "//="}

\* operator of a node as far as precedence is concerned ("" for atoms)
OpOf(t) == IF t.k = "bin" THEN t.op ELSE IF t.k = "as" THEN "as" ELSE ""

\* must the right operand of binary/as node t be parenthesised?
RightNeedsParen(t) ==
  LET op == OpOf(t)  r == t.r  rop == OpOf(r)
  IN IF t.k = "as" THEN FALSE                       \* the body of a binding extends as far as possible
     ELSE IF r.k \in {"def", "label"} THEN FALSE      \* these start an atom and swallow the rest
     ELSE IF rop = "" THEN FALSE
     ELSE IF Prec(rop) < Prec(op) THEN TRUE
     ELSE IF Prec(rop) > Prec(op) THEN FALSE
     ELSE ~RightAssoc(op)

RECURSIVE RightOpen(_)
\* does the rendering of t (without outer parentheses) end in a body that extends to the right?
RightOpen(t) ==
  CASE t.k \in {"as", "def", "label"} -> TRUE
    [] t.k = "bin" -> RightOpen(t.r) /\ ~RightNeedsParen(t)
    [] t.k = "neg" -> FALSE
    [] OTHER -> FALSE

LeftNeedsParen(t) ==
  LET op == OpOf(t)  l == t.l  lop == OpOf(l)
  IN IF RightOpen(l) THEN TRUE
     ELSE IF lop = "" THEN FALSE
     ELSE IF Prec(lop) < Prec(op) THEN TRUE
     ELSE IF Prec(lop) > Prec(op) THEN FALSE
     ELSE RightAssoc(op)

Par(toks) == << "(" >> \o toks \o << ")" >>

IsAtomic(t) == t.k \in {"id", "recurse", "num", "var", "arr", "obj", "str", "call", "path", "if", "fold", "break"}

RECURSIVE Render(_, _), RenderPat(_), RenderAtomic(_, _)

RenderPat(p) ==
  CASE p.p = "var" -> << "$" \o p.x >>
    [] p.p = "arr" -> << "[" >> \o FlatSeq([i \in 1..Len(p.ps) |-> (IF i > 1 THEN << "," >> ELSE <<>>) \o RenderPat(p.ps[i])]) \o << "]" >>

\* t where the grammar asks for an atomic term (operand of -, try, postfix ?, path head, reduce/foreach source)
RenderAtomic(t, mode) ==
  IF IsAtomic(t) /\ mode # "full" THEN Render(t, mode) ELSE Par(Render(t, mode))

Render(t, mode) ==
  LET W(x, need) == IF need \/ mode = "full" \/ (mode = "red" /\ ~IsAtomic(x)) THEN Par(Render(x, mode)) ELSE Render(x, mode)
  IN
  CASE t.k = "id" -> << "." >>
    [] t.k = "recurse" -> << ".." >>
    [] t.k = "num" -> << ToString(t.n) >>
    [] t.k = "var" -> << "$" \o t.x >>
    [] t.k = "break" -> << "break", "$" \o t.x >>
    [] t.k = "arr" -> IF "f" \in DOMAIN t THEN << "[" >> \o Render(t.f, mode) \o << "]" >> ELSE << "[", "]" >>
    [] t.k = "call" ->
         << t.f >> \o (IF t.args = <<>> THEN <<>>
                       ELSE << "(" >> \o FlatSeq([i \in 1..Len(t.args) |-> (IF i > 1 THEN << ";" >> ELSE <<>>) \o Render(t.args[i], mode)]) \o << ")" >>)
    [] t.k = "neg" -> << "-" >> \o RenderAtomic(t.f, mode)
    [] t.k = "try" ->
         << "try" >> \o RenderAtomic(t.f, mode) \o
         (IF t.c = TC0("empty") THEN <<>> ELSE << "catch" >> \o RenderAtomic(t.c, mode))
    [] t.k = "if" -> << "if" >> \o Render(t.c, mode) \o << "then" >> \o Render(t.t, mode) \o << "else" >> \o Render(t.e, mode) \o << "end" >>
    [] t.k = "label" -> << "label", "$" \o t.x, "|" >> \o Render(t.f, mode)
    [] t.k = "def" ->
         FlatSeq([i \in 1..Len(t.defs) |->
                    << "def", t.defs[i].name >> \o
                    (IF t.defs[i].params = <<>> THEN <<>>
                     ELSE << "(" >> \o FlatSeq([j \in 1..Len(t.defs[i].params) |->
                                                  (IF j > 1 THEN << ";" >> ELSE <<>>) \o
                                                  << (IF t.defs[i].params[j].var THEN "$" ELSE "") \o t.defs[i].params[j].n >>]) \o << ")" >>)
                    \o << ":" >> \o Render(t.defs[i].body, mode) \o << ";" >>])
         \o Render(t.r, mode)
    [] t.k = "fold" ->
         << t.name >> \o RenderAtomic(t.xs, mode) \o << "as" >> \o RenderPat(t.pat) \o << "(" >> \o Render(t.init, mode) \o << ";" >> \o Render(t.upd, mode)
         \o (IF "proj" \in DOMAIN t THEN << ";" >> \o Render(t.proj, mode) ELSE <<>>) \o << ")" >>
    [] t.k = "path" ->
         (IF t.l.k = "id" THEN << "." >> ELSE IF t.l.k = "path" THEN Par(Render(t.l, mode)) ELSE RenderAtomic(t.l, mode)) \o
         FlatSeq([i \in 1..Len(t.parts) |->
                    LET p == t.parts[i]
                    IN << "[" >> \o
                       (IF p.p = "idx" THEN Render(p.i, mode)
                        ELSE (IF p.hi THEN Render(p.i, mode) ELSE <<>>) \o (IF p.hi \/ p.hj THEN << ":" >> ELSE <<>>) \o (IF p.hj THEN Render(p.j, mode) ELSE <<>>))
                       \o << "]" >> \o (IF p.opt THEN << "?" >> ELSE <<>>)])
    [] t.k = "as" -> W(t.l, LeftNeedsParen(t)) \o << "as" >> \o RenderPat(t.pat) \o << "|" >> \o W(t.r, FALSE)
    [] t.k = "bin" -> W(t.l, LeftNeedsParen(t)) \o << t.op >> \o W(t.r, RightNeedsParen(t))
=============================================================================

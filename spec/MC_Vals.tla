----------------------------- MODULE MC_Vals -----------------------------
(***************************************************************************)
(* Exhaustive configurations over VALUE space: a fixed set of small        *)
(* programs (one per operation of the property) applied to every           *)
(* combination of values of a suite.  Values are passed as variables       *)
(* ($c, $i, $j, ...), so no value has to be printed as program text.       *)
(* Every case is one initial state; Emit writes the replay vector.         *)
(***************************************************************************)
EXTENDS JaqOrder, Json

CONSTANTS Suite, Size

VARIABLES prog, vars, done
vs == << prog, vars, done >>

S1(c) == StrV(<< c >>)
\* alphabet with 1-4 byte characters and an invalid byte: a, a-umlaut, euro sign, emoji, \xff
Chars == {97, 228, 8364, 128578, -255}

RECURSIVE SeqsUpTo(_, _)
SeqsUpTo(A, n) == IF n = 0 THEN {<<>>} ELSE SeqsUpTo(A, n - 1) \cup {Append(s, a) : s \in SeqsUpTo(A, n - 1), a \in A}

Arrays(n)  == {ArrV(s) : s \in SeqsUpTo({IntV(0), IntV(1)}, n)}
Strings(n) == {StrV(s) : s \in SeqsUpTo(Chars, n)}
ByteStrs(n) == {BytesV(s) : s \in SeqsUpTo({65, 255}, n)}
Positions  == {IntV(n) : n \in -5..5} \cup {Null}
BadPositions == {StrV(Ascii("a")), FltV(3, 2), True, ArrV(<<>>), ArrV(<< IntV(0) >>), ObjV(<<>>)}
Objects    == {ObjV(<<>>),
               ObjV(<< << StrV(Ascii("a")), IntV(0) >> >>),
               ObjV(<< << StrV(Ascii("a")), IntV(0) >>, << StrV(Ascii("b")), IntV(1) >> >>),
               ObjV(<< << StrV(Ascii("b")), IntV(1) >>, << StrV(Ascii("a")), IntV(0) >>, << IntV(1), Null >> >>),
               ObjV(<< << Null, IntV(0) >>, << ArrV(<< IntV(0) >>), IntV(1) >>, << StrV(Ascii("a")), ObjV(<<>>) >> >>)}
Keys10     == {StrV(Ascii("a")), StrV(Ascii("b")), StrV(Ascii("c")), IntV(1), IntV(0), Null, ArrV(<< IntV(0) >>), FltV(1, 1)}

C == TVar("c")
I == TVar("i")
J == TVar("j")
On(c, t) == TPipe(c, t)

\* update right-hand sides yielding 0, 1, 2 outputs / a wrong kind / an error
USet == {TC0("empty"), TArr(TId), TComma(TArr(TId), TId), TC0("error")}
\* for slices: results of the kind of the slice
USlice == {TC0("empty"), TId, TBin("+", TId, TId), TPath(TId, << PFrom(TNum(1)) >>), TComma(TPath(TId, << PUpto(TNum(1)) >>), TId), TNum(1)}

ReadOps1 == {  \* operations on a container alone
  On(C, TC0("length")), On(C, TArr(TIter)), On(C, TC0("keys")), On(C, TC0("first")), On(C, TC0("last")),
  On(C, TArr(TIterO)), On(C, TArr(TC0("keys_unsorted"))),
  TAsP(C, [p |-> "arr", ps |-> << [p |-> "var", x |-> "a"], [p |-> "var", x |-> "b"] >>], TArr(TComma(TVar("a"), TVar("b")))),
  On(C, TBin("|=", TIter, TArr(TId))), On(C, TBin("|=", TIter, TC0("empty"))), On(C, TBin("|=", TIter, TComma(TId, TId))),
  On(C, TBin("|=", TIterO, TArr(TId)))
}
ReadOps2 == {  \* container x position
  On(C, TAt(I)), On(C, TPath(TId, << PIdxO(I) >>)), On(C, TC1("has", I)), On(C, TC1("nth", I)),
  On(C, TPath(TId, << PFrom(I) >>)), On(C, TPath(TId, << PUpto(I) >>)),
  On(C, TC1("path", TAt(I))), On(C, TC1("path", TPath(TId, << PFrom(I) >>)))
}
ReadOps3 == {  \* container x bound x bound
  On(C, TPath(TId, << PRng(I, J) >>)),
  On(C, TAt(TObj(<< TE(TStr(Ascii("start")), I), TE(TStr(Ascii("end")), J) >>))),
  On(C, TC1("path", TPath(TId, << PRng(I, J) >>)))
}
UpdOps2 == {On(C, TBin("|=", TAt(I), u)) : u \in USet} \cup {On(C, TBin("|=", TPath(TId, << PIdxO(I) >>), u)) : u \in {TArr(TId), TC0("empty")}}
           \cup {On(C, TBin("=", TAt(I), TNum(7))), On(C, TBin("+=", TAt(I), TNum(7))), On(C, TC1("del", TAt(I)))}
UpdOps3 == {On(C, TBin("|=", TPath(TId, << PRng(I, J) >>), u)) : u \in USlice}
           \cup {On(C, TBin("|=", TPath(TId, << [p |-> "rng", hi |-> TRUE, i |-> I, hj |-> TRUE, j |-> J, opt |-> TRUE] >>), TId))}
           \cup {On(C, TBin("=", TPath(TId, << PRng(I, J) >>), TArr(TNum(7)))), On(C, TC1("del", TPath(TId, << PRng(I, J) >>)))}

Containers == Arrays(Size) \cup Strings(IF Size > 2 THEN 2 ELSE Size) \cup ByteStrs(2) \cup {Null, IntV(0)}

V1(c)       == << << "c", c >> >>
V2(c, i)    == << << "c", c >>, << "i", i >> >>
V3(c, i, j) == << << "c", c >>, << "i", i >>, << "j", j >> >>

-----------------------------------------------------------------------------
(* C08: one total order, equal values are interchangeable *)
VA == TVar("a")
VB == TVar("b")
X2 == TE(TStr(Ascii("x")), TNum(2))
Obj2(k, v) == TObj(<< TE(k, v), X2 >>)
Ops8 == {
  TArr(TComma(TBin("<", VA, VB), TComma(TBin("<=", VA, VB), TComma(TBin("==", VA, VB), TComma(TBin("!=", VA, VB), TComma(TBin(">=", VA, VB), TBin(">", VA, VB))))))),
  TPipe(TArr(TComma(VA, VB)), TC0("sort")),
  TPipe(TArr(TComma(VA, TComma(VB, VA))), TC0("unique")),
  TPipe(TArr(TComma(VA, VB)), TC1("group_by", TId)),
  TPipe(TArr(TComma(VA, VB)), TArr(TComma(TC0("min"), TC0("max")))),
  TPipe(Obj2(VA, TNum(1)), TArr(TComma(TC1("has", VB), TAt(VB)))),
  TBin("==", Obj2(VA, TNum(1)), TObj(<< X2, TE(VB, TNum(1)) >>)),
  TBin("+", Obj2(VA, TNum(1)), TObj(<< TE(VB, TNum(3)) >>)),
  TBin("*", Obj2(VA, TObj(<< TE(TStr(Ascii("p")), TNum(1)) >>)), TObj(<< TE(VB, TObj(<< TE(TStr(Ascii("q")), TNum(2)) >>)) >>)),
  TPipe(Obj2(VA, TNum(1)), TBin("=", TAt(VB), TNum(5))),
  TPipe(Obj2(VA, TNum(1)), TC1("del", TAt(VB))),
  TPipe(TArr(TComma(VA, TStr(Ascii("x")))), TArr(TComma(TC1("index", TArr(VB)), TC1("indices", TArr(VB))))),
  TBin("-", TArr(TComma(VA, TNum(7))), TArr(VB)),
  TPipe(TArr(TComma(TArr(VA), TNum(7))), TArr(TComma(TC1("contains", TArr(TArr(VB))), TPipe(TArr(TArr(VB)), TC1("inside", TArr(TComma(TArr(VA), TNum(7)))))))),
  TPipe(TPipe(TArr(TComma(VA, VB)), TC0("sort")), TC1("bsearch", VB))
}

VC == TVar("c")
NumAtoms == (IF Size <= 2 THEN {IntV(0), IntV(1), FltV(0, 1), NZero, FltV(1, 1), BigV(FALSE, << 1 >>), D("1.0"), D("1e0"), FltV(1, 2), Inf}
             ELSE {a \in Atoms8 : IsNum(a)}) \cup {Null, StrV(<< 97 >>), BytesV(<< 97 >>), ArrV(<< FltV(1, 1) >>), ArrV(<< IntV(1) >>),
             ObjV(<< << StrV(<< 97 >>), IntV(0) >>, << StrV(<< 98 >>), IntV(1) >> >>),
             ObjV(<< << StrV(<< 98 >>), IntV(1) >>, << StrV(<< 97 >>), IntV(0) >> >>)}
Ops8T == {
  TPipe(TArr(TComma(VA, TComma(VB, VC))), TC0("sort")),
  TPipe(TArr(TComma(VA, TComma(VB, VC))), TC0("unique")),
  TPipe(TArr(TComma(VA, TComma(VB, VC))), TC1("group_by", TId)),
  TPipe(TArr(TComma(VA, TComma(VB, VC))), TC1("sort_by", TArr(TId)))
}
\* long arrays of equal-but-distinguishable values (stability beyond small-array special cases)
RECURSIVE Rep(_, _)
Rep(sq, k) == IF k = 0 THEN <<>> ELSE sq \o Rep(sq, k - 1)
LongArrays == {ArrV(Rep(sq, 8)) : sq \in {
   << IntV(2), FltV(1, 1), IntV(1), FltV(2, 1), D("1e0") >>,
   << FltV(1, 1), IntV(0), IntV(1), NZero, D("1.0"), BigV(FALSE, << 1 >>) >>,
   << ObjV(<< << StrV(<< 97 >>), IntV(0) >>, << StrV(<< 98 >>), IntV(1) >> >>), IntV(3),
      ObjV(<< << StrV(<< 98 >>), IntV(1) >>, << StrV(<< 97 >>), IntV(0) >> >>), IntV(2) >> }}
OpsLong == {TPipe(VA, TC0("sort")), TPipe(VA, TC0("unique")), TPipe(VA, TC1("group_by", TId)), TPipe(VA, TC1("sort_by", TBin("<", TId, TNum(2)))),
            TPipe(VA, TC1("unique_by", TBin("<", TId, TNum(2)))), TPipe(VA, TArr(TComma(TC0("min"), TC0("max"))))}

-----------------------------------------------------------------------------
(* C09: exact integers at any size, operator rules, integer consumers *)
Dg(n) == NatDigits(n)
P63  == << 9,2,2,3,3,7,2,0,3,6,8,5,4,7,7,5,8,0,8 >>          \* 2^63
P63m == << 9,2,2,3,3,7,2,0,3,6,8,5,4,7,7,5,8,0,7 >>          \* 2^63 - 1
P63p == << 9,2,2,3,3,7,2,0,3,6,8,5,4,7,7,5,8,0,9 >>          \* 2^63 + 1
P62  == << 4,6,1,1,6,8,6,0,1,8,4,2,7,3,8,7,9,0,4 >>          \* 2^62
P64  == << 1,8,4,4,6,7,4,4,0,7,3,7,0,9,5,5,1,6,1,6 >>        \* 2^64
P70  == << 1,1,8,0,5,9,1,6,2,0,7,1,7,4,1,1,3,0,3,4,2,4 >>    \* 2^70
R63  == << 3,0,3,7,0,0,0,5,0,0 >>                            \* just above sqrt(2^63)
P32  == << 4,2,9,4,9,6,7,2,9,6 >>                            \* 2^32
\* integer literals: jaq reads them as machine integers when they fit, as big integers otherwise
Lits9 == {TBig(n, d) : n \in BOOLEAN, d \in {<< 1 >>, << 2 >>, << 3 >>, << 7 >>, P32, R63, P62, P63m, P63, P63p, P64, P70}} \cup {TBig(FALSE, <<>>)}
ArithOps == {"+", "-", "*", "%", "==", "<", "/"}
\* every kind of value
Kinds9 == {Null, True, IntV(0), IntV(1), IntV(2), IntV(-3), FltV(3, 2), FltV(0, 1), StrV(<<>>), StrV(<< 97 >>), StrV(<< 97, 98, 97 >>), BytesV(<< 97 >>),
           ArrV(<<>>), ArrV(<< IntV(1) >>), ArrV(<< IntV(1), IntV(2), IntV(1) >>),
           ObjV(<<>>), ObjV(<< << StrV(<< 97 >>), IntV(1) >>, << StrV(<< 98 >>), ObjV(<< << StrV(<< 99 >>), IntV(1) >> >>) >> >>),
           ObjV(<< << StrV(<< 98 >>), ObjV(<< << StrV(<< 100 >>), IntV(2) >> >>) >>, << StrV(<< 99 >>), IntV(3) >> >>),
           BigV(FALSE, P70), BigV(FALSE, << 2 >>)}
\* the same integer as machine integer and as big integer; huge ones
Ints9 == {IntV(n) : n \in -3..4} \cup {BigV(n < 0, Dg(IF n < 0 THEN -n ELSE n)) : n \in -3..4} \cup {BigV(FALSE, P70), BigV(TRUE, P70), IntV(65), BigV(FALSE, << 6, 5 >>)}
N9 == TVar("n")
ConsumerOps == {
  TPipe(TArr(TComma(TNum(10), TComma(TNum(20), TNum(30)))), TArr(TComma(TAt(N9), TComma(TPath(TId, << PFrom(N9) >>), TPath(TId, << PUpto(N9) >>))))),
  TPipe(TStr(<< 97, 228, 99 >>), TArr(TComma(TPath(TId, << PFrom(N9) >>), TPath(TId, << PUpto(N9) >>)))),
  TPipe(TPipe(TStr(<< 97, 98, 99 >>), TC0("tobytes")), TArr(TComma(TAt(N9), TPath(TId, << PFrom(N9) >>)))),
  TArr(TC2("limit", N9, TComma(TNum(1), TComma(TNum(2), TNum(3))))),
  TArr(TC2("skip", N9, TComma(TNum(1), TComma(TNum(2), TNum(3))))),
  TArr(TC2("limit", TNum(6), TC1("range", N9))),
  TArr(TC2("limit", TNum(6), TCall("range", << TNum(0), TNum(5), N9 >>))),
  TArr(TC2("nth", N9, TComma(TNum(1), TComma(TNum(2), TNum(3))))),
  TBin("*", TStr(<< 97, 98 >>), N9),
  TBin("*", N9, TStr(<< 97, 98 >>)),
  TPipe(TArr(TComma(TNum(10), TComma(TNum(20), TNum(30)))), TBin("|=", TAt(N9), TArr(TId))),
  TPipe(TArr(TComma(TNum(10), TComma(TNum(20), TNum(30)))), TC1("has", N9)),
  TPipe(TArr(N9), TC0("implode")),
  TArr(TComma(TBin("==", N9, TNum(2)), TComma(TBin("<", N9, TNum(2)), TBin(">=", N9, TNeg(TNum(1)))))),
  TPipe(TObj(<< TE(N9, TNum(1)), TE(TStr(<< 120 >>), TNum(2)) >>), TArr(TComma(TC1("has", TNum(2)), TAt(TNum(0))))),
  TArr(TComma(TBin("+", N9, TNum(1)), TComma(TBin("%", TNum(7), N9), TComma(TNeg(N9), TPipe(N9, TC0("length"))))))
}

-----------------------------------------------------------------------------
(* C12: collection built-ins on arrays / objects with duplicates, ties, mixed types, empties, non-string keys *)
O2(k1, v1, k2, v2) == ObjV(<< << k1, v1 >>, << k2, v2 >> >>)
SA == StrV(<< 97 >>)
SB == StrV(<< 98 >>)
SC == StrV(<< 99 >>)
Coll12 == {
  ArrV(<<>>), ArrV(<< IntV(1) >>), ArrV(<< IntV(2), IntV(1), IntV(2) >>), ArrV(<< IntV(1), SA, Null, ArrV(<< IntV(1) >>), ObjV(<< << SA, IntV(1) >> >>), False >>),
  ArrV(<< ArrV(<< IntV(1), IntV(2) >>), ArrV(<< IntV(1) >>), ArrV(<< IntV(2), IntV(1) >>), ArrV(<<>>) >>),
  ArrV(<< O2(SA, IntV(1), SB, IntV(2)), O2(SA, IntV(1), SB, IntV(1)), O2(SA, IntV(0), SB, IntV(3)), O2(SB, IntV(2), SA, IntV(1)) >>),
  ArrV(<< SB, SA, SB, StrV(<< 97, 98 >>) >>), ArrV(<< FltV(1, 1), IntV(1), IntV(0), NZero >>),
  ArrV(<< IntV(1), ArrV(<< IntV(2), ArrV(<< IntV(3) >>) >>), ObjV(<< << SA, ArrV(<< IntV(1), ArrV(<< IntV(2) >>) >>) >> >>) >>),
  ArrV(<< ArrV(<< IntV(1) >>), ArrV(<< IntV(2), IntV(3) >>), ArrV(<< IntV(4), IntV(5), IntV(6) >>) >>),
  ArrV(<< StrV(Ascii("foobar")), IntV(1) >>),
  ObjV(<<>>), O2(SB, IntV(2), SA, IntV(1)), ObjV(<< << False, IntV(1) >> >>), O2(Null, IntV(1), False, IntV(2)),
  ObjV(<< << SA, O2(SB, IntV(1), SC, IntV(2)) >>, << StrV(<< 100 >>), IntV(3) >> >>), O2(IntV(1), IntV(2), StrV(<< 120 >>), ArrV(<< IntV(1) >>)),
  O2(SA, ArrV(<< ArrV(<< IntV(1), IntV(2) >>) >>), SB, Null),
  StrV(Ascii("foobar")), StrV(<< 97, 228, 98 >>), IntV(-3), FltV(-5, 2), FltV(7, 2), Null, True
}
KeyFs == {TId, TKey("a"), TKey("b"), TArr(TComma(TKey("a"), TKey("b"))), TComma(TKey("a"), TKey("b")), TC0("empty"), TC0("length"), TBin("<", TId, TNum(2)), TC0("type")}
Ops12 ==
  {TC0(f) : f \in {"sort", "unique", "min", "max", "keys", "keys_unsorted", "to_entries", "flatten", "transpose", "add", "any", "all", "length", "reverse",
                    "paths", "tostring", "tojson", "type", "isarray", "isobject", "isstring", "isnumber", "isboolean", "arrays", "objects", "scalars", "iterables",
                    "values", "nulls", "abs", "floor", "round", "ceil", "explode", "ascii_upcase", "ascii_downcase", "utf8bytelength", "not"}}
  \cup {TC1(f, k) : f \in {"sort_by", "group_by", "unique_by", "min_by", "max_by", "map", "map_values"}, k \in KeyFs}
  \cup {TArr(TC0("combinations")), TPipe(TC0("to_entries"), TC0("from_entries")), TC1("with_entries", TId), TBin("==", TC0("keys"), TPipe(TC0("keys_unsorted"), TC0("sort"))),
        TBin("==", TC1("sort_by", TKey("a")), TC1("sort_by", TArr(TKey("a")))), TC1("flatten", TNum(1)), TC1("flatten", TNum(0)), TC1("walk", TArr(TId)),
        TC1("walk", TIf(TC0("isnumber"), TBin("+", TId, TNum(1)), TId)), TC1("del", TAt(TNum(0))), TC1("del", TKey("a")), TArr(TC1("paths", TC0("isnumber"))),
        TC1("delpaths", TArr(TComma(TArr(TNum(0)), TArr(TStr(Ascii("a")))))), TC1("pick", TKey("a")), TC1("pick", TComma(TPath(TId, << PIdx(TStr(Ascii("a"))), PIdx(TStr(Ascii("b"))) >>), TPath(TId, << PIdx(TStr(Ascii("a"))), PIdx(TStr(Ascii("c"))) >>))),
        TC1("pick", TComma(TKey("d"), TKey("a"))), TC1("join", TStr(<< 44 >>)), TC1("split", TStr(<< 98 >>)), TC1("split", TStr(<<>>)),
        TC1("has", TNum(0)), TC1("has", TStr(Ascii("a"))), TPipe(TNum(0), TC1("in", TId)), TC1("select", TBin(">", TC0("length"), TNum(1)))}
\* number classes, selections by class, trimming, tonumber / toboolean: on every kind of number (both zeros, both infinities, NaN,
\* big integers, decimal literals) and on strings with leading / trailing White_Space characters and number-like spellings
Num12 == {NaN, Inf, NInf, NZero, IntV(0), IntV(1), IntV(-2), FltV(0, 1), FltV(1, 2), FltV(-3, 4), BigV(FALSE, P70), BigV(TRUE, P70), BigV(FALSE, << 5 >>),
          DecV(Ascii("0.0")), DecV(Ascii("1.10")), DecV(Ascii("0e5")), DecV(Ascii("1e1000")), False}
Str12 == {StrV(c) : c \in {<<>>, << 32 >>, << 32, 97, 32 >>, << 9, 10, 11, 12, 13, 32, 97, 32, 98, 12288 >>, << 160, 133, 120, 8195, 32 >>, << 32, 8203 >>, << 8203, 32 >>, << 5760, 8192, 8202, 8232, 8233, 8239, 8287 >>,
                          << 8191, 97, 8203 >>, << 8, 97, 14 >>, << 28, 97, 31 >>, << 32, -255, 32 >>, << 97, 32, 32 >>, << 32, 32, 97 >>,
                          Ascii("42"), Ascii("-7"), Ascii("007"), Ascii("-0"), Ascii("0"), Ascii("123456789"), Ascii("true"), Ascii("false"), Ascii("null"), Ascii("[42]"), Ascii("[true]"),
                          Ascii("1.5"), Ascii("abc"), Ascii("1 2"), Ascii("true false"), Ascii(" 42"), Ascii("--1"), Ascii("{}"), << 34, 49, 34 >>, Ascii("1e2"), Ascii("nan"), Ascii("True")}}
          \cup {BytesV(<< 32, 97 >>)}
Ops12n == {TC0(f) : f \in {"isnan", "isinfinite", "isfinite", "isnormal", "finites", "normals", "booleans", "numbers", "strings", "trim", "ltrim", "rtrim", "tonumber", "toboolean"}}
          \cup {TBin("==", TC0("trim"), TPipe(TC0("ltrim"), TC0("rtrim"))), TArr(TPipe(TComma(TC0("nan"), TComma(TC0("infinite"), TNeg(TC0("infinite")))), TComma(TC0("isnan"), TComma(TC0("isinfinite"), TComma(TC0("isfinite"), TC0("isnormal")))))),
                 TArr(TPipe(TIterO, TC0("normals"))), TArr(TPipe(TIterO, TC0("finites"))), TPipe(TC0("tostring"), TC0("tonumber"))}
Needles12 == {IntV(1), IntV(2), SA, SB, StrV(Ascii("foo")), StrV(Ascii("bar")), StrV(Ascii("ob")), ArrV(<< IntV(1) >>), ArrV(<< IntV(1), IntV(1) >>), ArrV(<< IntV(2), IntV(1) >>),
              ArrV(<< StrV(Ascii("foo")), StrV(Ascii("bar")) >>), ArrV(<< ArrV(<< IntV(1) >>), ArrV(<< IntV(2) >>) >>), Null, O2(SA, IntV(1), SB, IntV(2)),
              ObjV(<< << SA, ArrV(<< ArrV(<< IntV(1) >>), ArrV(<< IntV(2) >>) >>) >> >>), ObjV(<< << SA, ObjV(<< << SB, IntV(1) >> >>) >> >>)}
Ops12x == {TC1(f, TVar("x")) : f \in {"contains", "inside", "indices", "index", "rindex", "has", "startswith", "endswith", "ltrimstr", "rtrimstr", "bsearch", "split", "join"}}
          \cup {TPipe(TVar("x"), TC1("in", TVar("c")))}

Cases ==
  CASE Suite = "coll" -> {<< On(C, p), V1(c) >> : p \in Ops12, c \in Coll12} \cup {<< On(C, p), V1(c) >> : p \in Ops12n, c \in Coll12 \cup Num12 \cup Str12 \cup {ArrV(<< NaN, IntV(0), Inf, IntV(3), NZero, Null, FltV(1, 2) >>)}}
    [] Suite = "coll2" -> {<< On(C, p), << << "c", c >>, << "x", x >> >> >> : p \in Ops12x, c \in Coll12, x \in Needles12}
    [] Suite = "arith-int" -> {<< TBin(op, a, b), <<>> >> : op \in ArithOps, a \in Lits9, b \in Lits9} \cup {<< TNeg(a), <<>> >> : a \in Lits9}
    [] Suite = "arith-kinds" -> {<< TBin(op, VA, VB), << << "a", a >>, << "b", b >> >> >> : op \in {"+", "-", "*", "/", "%"}, a \in Kinds9, b \in Kinds9}
                                 \cup {<< TNeg(VA), << << "a", a >> >> >> : a \in Kinds9}
    [] Suite = "int-consumers" -> {<< p, << << "n", n >> >> >> : p \in ConsumerOps, n \in Ints9}
    [] Suite = "order-triples" -> {<< p, << << "a", a >>, << "b", b >>, << "c", c >> >> >> : p \in Ops8T, a \in NumAtoms, b \in NumAtoms, c \in NumAtoms}
    [] Suite = "order-long" -> {<< p, << << "a", a >> >> >> : p \in OpsLong, a \in LongArrays}
    [] Suite = "order-pairs" -> {<< p, << << "a", a >>, << "b", b >> >> >> : p \in Ops8, a \in Atoms8, b \in Atoms8}
    [] Suite = "pos-read" ->
         {<< p, V1(c) >> : p \in ReadOps1, c \in Containers \cup Objects}
         \cup {<< p, V2(c, i) >> : p \in ReadOps2, c \in Containers, i \in Positions \cup BadPositions}
         \cup {<< p, V2(c, i) >> : p \in ReadOps2, c \in Objects, i \in Keys10}
    [] Suite = "pos-slice" ->
         {<< p, V3(c, i, j) >> : p \in ReadOps3, c \in Containers, i \in Positions, j \in Positions}
         \cup {<< p, V3(c, i, j) >> : p \in ReadOps3, c \in Arrays(2) \cup Strings(1), i \in BadPositions, j \in {Null, IntV(1)}}
    [] Suite = "pos-upd" ->
         {<< p, V2(c, i) >> : p \in UpdOps2, c \in Containers, i \in Positions \cup BadPositions}
         \cup {<< p, V2(c, i) >> : p \in UpdOps2, c \in Objects, i \in Keys10}
    [] Suite = "pos-updslice" ->
         {<< p, V3(c, i, j) >> : p \in UpdOps3, c \in Containers, i \in Positions, j \in Positions}

Expect == RunProgV(prog, vars, Null)

Init == \E cs \in Cases : prog = cs[1] /\ vars = cs[2] /\ done = FALSE

Emit ==
  /\ ~done
  /\ done' = TRUE
  /\ PrintT(<< "VEC", ToJson([prog |-> prog, vars |-> vars, input |-> Null, expect |-> Expect]) >>)
  /\ UNCHANGED << prog, vars >>

Spec == Init /\ [][Emit]_vs

WellFormed == Expect.e.k \in {"ok", "err", "div", "unk", "unsup"}
\* the model of positions is total on this suite: nothing falls outside the specified fragment
NoUnsup == Expect.e.k # "unsup"

-----------------------------------------------------------------------------
(* consistency of the position model itself (C10), independent of the code *)
Var(name) == LET A == {i \in 1..Len(vars) : vars[i][1] = name} IN vars[CHOOSE i \in A : TRUE][2]
HasVar(name) == \E i \in 1..Len(vars) : vars[i][1] = name

\* has($k) is true exactly when .[$k] points into the value (arrays / byte strings with integer k)
HasIffInside ==
  (HasVar("i") /\ Var("c").t \in {"arr", "bytes"} /\ Var("i").t = "int") =>
     LET c == Var("c")  i == Var("i")
         h == Has(c, i)
         a == IF i.n < 0 THEN Length(c) + i.n ELSE i.n
     IN h = Bool(a >= 0 /\ a < Length(c)) /\ (h.b <=> Index(c, i) # Null \/ (a >= 0 /\ a < Length(c)))

\* a slice is the sub-sequence between the clipped bounds: its length and position are determined
SliceIsSubSeq ==
  (HasVar("j") /\ Var("c").t \in {"arr", "str", "bytes"} /\ IsBound(Var("i")) /\ IsBound(Var("j"))) =>
     LET c == Var("c")
         s == Slice(c, Var("i"), Var("j"))
         n == Length(c)
         from == Bound(Var("i"), n, 0)
         upto == Bound(Var("j"), n, n)
     IN s.t = c.t /\ Length(s) = (IF upto > from THEN upto - from ELSE 0)
        /\ \A k \in 1..Length(s) : Elems(s)[k] = Elems(c)[from + k]
=============================================================================

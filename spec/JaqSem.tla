----------------------------- MODULE JaqSem -----------------------------
(***************************************************************************)
(* Definitional semantics of the jq language as documented in jaq's manual *)
(* (docs/corelang.dj, docs/advanced.dj, docs/stdlib.dj).                   *)
(*                                                                         *)
(* Named variables, strict evaluation, finite streams with explicit        *)
(* terminators.  Nothing here is taken from the implementation: no         *)
(* relative indices, no trampolines, no iterators.                         *)
(*                                                                         *)
(* A stream is [o |-> <<items>>, e |-> terminator]; terminators:           *)
(*   ok | err(v) | brk(label id) | halt(c) | div | unk | unsup             *)
(*   div   = fuel ran out: unknown from here on                            *)
(*   unk   = the manual does not fix what happens from here on             *)
(*   unsup = construct outside the modelled fragment                       *)
(* The first non-ok terminator ends everything ("the first error ends the  *)
(* stream and the outputs before it are delivered").                       *)
(*                                                                         *)
(* Items of value streams are pairs [v |-> value, p |-> path]: one         *)
(* evaluator Ev(m, ...) serves `run` (m = "run") and `path(f)`             *)
(* (m = "paths", manual table "path(p)"); Upd is the table "p |= u".       *)
(***************************************************************************)
EXTENDS JaqValues

Ok      == [k |-> "ok"]
ErrT(v) == [k |-> "err", v |-> v]
BrkT(l) == [k |-> "brk", l |-> l]
HaltT(c) == [k |-> "halt", c |-> c]
DivT    == [k |-> "div"]
UnkT    == [k |-> "unk"]
UnsupT  == [k |-> "unsup"]

S(o, e)   == [o |-> o, e |-> e]
Emp       == S(<<>>, Ok)
One(x)    == S(<< x >>, Ok)
End(e)    == S(<<>>, e)
ErrS(v)   == End(ErrT(v))
IsOk(s)   == s.e.k = "ok"

PV(v, p)  == [v |-> v, p |-> p]
Pv0(v)    == PV(v, <<>>)

\* result of a primitive -> stream of one value (empty path)
FromR(r0) == LET r == r0 IN IF r.t = "FAIL" THEN ErrS(r.v) ELSE IF r.t = "UNK" THEN End(UnkT) ELSE One(Pv0(r))
\* the same, keeping a given path
FromRP(r0, p) == LET r == r0 IN IF r.t = "FAIL" THEN ErrS(r.v) ELSE IF r.t = "UNK" THEN End(UnkT) ELSE One(PV(r, p))

\* (TLC re-evaluates an operator argument at every use: arguments are bound by LET, which is cached)
Cat(s1, s2) == LET a == s1 IN IF IsOk(a) THEN (LET b == s2 IN S(a.o \o b.o, b.e)) ELSE a

RECURSIVE CatAll(_, _)
CatAll(ss, k) ==
  IF k > Len(ss) THEN Emp
  ELSE LET x == ss[k]
       IN IF IsOk(x) THEN LET r == CatAll(ss, k + 1) IN S(x.o \o r.o, r.e)
          ELSE x

\* for every item of s in order, the items of Op(item); stop at the first non-ok
Bind(s0, Op(_)) ==
  LET s == s0
      ss == [i \in 1..Len(s.o) |-> Op(s.o[i])] \o << End(s.e) >>
  IN CatAll(ss, 1)

\* cartesian product, left operand outermost (manual: f + g == f as $x | g as $y | $x + $y)
Prod2(sl0, sr0, Op(_, _)) ==
  LET sl == sl0
      sr == sr0
      ss == [i \in 1..Len(sl.o) |->
               LET inner == [j \in 1..Len(sr.o) |-> Op(sl.o[i], sr.o[j])] IN Cat(CatAll(inner, 1), End(sr.e))]
            \o << End(sl.e) >>
  IN CatAll(ss, 1)

\* prefix of a stream: the laziness of the definition (C03)
Take(s0, n) == LET s == s0 IN IF Len(s.o) >= n THEN S(SubSeq(s.o, 1, n), Ok) ELSE s

RECURSIVE FlatSeq(_)
FlatSeq(ss) == IF ss = <<>> THEN <<>> ELSE Head(ss) \o FlatSeq(Tail(ss))

SetMax(A) == CHOOSE m \in A : \A n \in A : n <= m

-----------------------------------------------------------------------------
(* environments: sequences of named bindings, the lexically nearest one is *)
(* the last match                                                          *)
VarB(x, v)        == [b |-> "var", x |-> x, v |-> v]
LblB(x, id)       == [b |-> "lbl", x |-> x, id |-> id]
ArgB(x, t, env)   == [b |-> "arg", x |-> x, ar |-> 0, t |-> t, env |-> env]
DefB(d)           == [b |-> "def", x |-> d.name, ar |-> Len(d.params), params |-> d.params, body |-> d.body]
NatB(x, ar)       == [b |-> "nat", x |-> x, ar |-> ar]

FindB(env, kinds, x) ==
  LET A == {i \in 1..Len(env) : env[i].b \in kinds /\ env[i].x = x}
  IN IF A = {} THEN 0 ELSE SetMax(A)
FindF(env, x, ar) ==
  LET A == {i \in 1..Len(env) : env[i].b \in {"def", "arg", "nat"} /\ env[i].x = x /\ env[i].ar = ar}
  IN IF A = {} THEN 0 ELSE SetMax(A)

-----------------------------------------------------------------------------
(* data-only helpers *)

\* `..` : the input and all recursively contained values (recurse(.[]?)), with paths
RECURSIVE RecAll(_)
RecAll(x) ==
  << x >> \o (IF CanIter(x.v) /\ ~(x.v.t = "obj" /\ x.v.uo)
              THEN LET ks == Keys(x.v)  vs == Values(x.v)
                   IN FlatSeq([i \in 1..Len(ks) |-> RecAll(PV(vs[i], Append(x.p, ks[i])))])
              ELSE <<>>)
\* does `..` meet an object whose key order is unspecified?
RECURSIVE HasUo(_)
HasUo(v) ==
  CASE v.t = "arr" -> \E i \in 1..Len(v.a) : HasUo(v.a[i])
    [] v.t = "obj" -> v.uo \/ \E i \in 1..Len(v.o) : HasUo(v.o[i][1]) \/ HasUo(v.o[i][2])
    [] OTHER -> FALSE

SliceKey(hi, i, hj, j) ==
  ObjV((IF hi THEN << << StrV(Ascii("start")), i >> >> ELSE <<>>) \o
       (IF hj THEN << << StrV(Ascii("end")), j >> >> ELSE <<>>))

\* one evaluated path part applied to one value (manual: Indexing, Slicing, Iterating; `?`)
PartRun(part, y) ==
  LET fail == IF part.opt THEN Emp ELSE ErrS(IErr)
  IN IF HasIErr(y.v) THEN End(UnkT)
     ELSE IF part.p = "idx" THEN
            IF HasIErr(part.i) THEN End(UnkT)
            ELSE LET r == Index(y.v, part.i)
                 IN IF IsFail(r) THEN fail ELSE FromRP(r, Append(y.p, part.i))
     ELSE IF part.p = "iter" THEN
            IF CanIter(y.v)
            THEN IF y.v.t = "obj" /\ y.v.uo /\ Len(y.v.o) > 1 THEN End(UnkT)
                 ELSE LET ks == Keys(y.v)  vs == Values(y.v)
                      IN S([i \in 1..Len(ks) |-> PV(vs[i], Append(y.p, ks[i]))], Ok)
            ELSE fail
     ELSE \* "rng"
          LET i == IF part.hi THEN part.i ELSE Null
              j == IF part.hj THEN part.j ELSE Null
          IN IF HasIErr(i) \/ HasIErr(j) THEN End(UnkT)
             ELSE LET r == Slice(y.v, i, j)
                  IN IF IsFail(r) THEN fail
                     ELSE FromRP(r, Append(y.p, SliceKey(part.hi, i, part.hj, j)))

RECURSIVE ApplyParts(_, _, _)
ApplyParts(c, k, y) ==
  IF k > Len(c) THEN One(y) ELSE Bind(PartRun(c[k], y), LAMBDA z : ApplyParts(c, k + 1, z))

\* getpath($path) on a value with a path
GetPath(path, x) ==
  IF path.t # "arr" THEN (IF path.t = "null" THEN One(x) ELSE ErrS(IErr))
  ELSE ApplyParts([i \in 1..Len(path.a) |-> [p |-> "idx", i |-> path.a[i], opt |-> FALSE]], 1, x)

-----------------------------------------------------------------------------
RECURSIVE Ev(_, _, _, _, _, _), Upd(_, _, _, _, _, _), ApplyU(_, _, _, _),
          BindPat(_, _, _, _, _, _), BindPats(_, _, _, _, _, _, _), BindArgs(_, _, _, _, _, _, _, _),
          Combos(_, _, _, _, _, _), FoldRun(_, _, _, _, _, _, _, _),
          RedFold(_, _, _, _, _, _), Native(_, _, _, _, _, _, _), NatUpd(_, _, _, _, _, _, _),
          UpdParts(_, _, _, _, _, _), RecUp(_, _, _, _), RangeFrom(_, _, _, _, _),
          IterUpd(_, _, _, _, _), IndexUpd(_, _, _, _, _, _), SliceUpd(_, _, _, _, _, _, _),
          NativeColl(_, _, _, _, _, _, _)

RangeCap == 40

\* range($from; $upto; $by) as its `while` definition (manual, stdlib "range")
RangeFrom(x, to, by, dir, n) ==
  IF n = 0 THEN End(DivT)
  ELSE LET c == Cmp(x, to)
           go == IF dir > 0 THEN c < 0 ELSE IF dir < 0 THEN c > 0 ELSE c # 0
       IN IF ~go THEN Emp
          ELSE LET nx == MathOp("+", x, by)
               IN IF IsVal(nx) THEN Cat(One(Pv0(x)), RangeFrom(nx, to, by, dir, n - 1))
                  ELSE Cat(One(Pv0(x)), FromR(nx))

(***************************************************************************)
(* destructuring: stream of environments                                   *)
(*   kenv: environment in which key filters run (outside the pattern)      *)
(*   env : environment being extended; y: the value matched                *)
(***************************************************************************)
BindPat(pat, kenv, env, y, lc, fuel) ==
  IF pat.p = "var" THEN One(Append(env, VarB(pat.x, y)))
  ELSE IF pat.p = "arr" THEN
         BindPats([i \in 1..Len(pat.ps) |-> [key |-> [k |-> "num", n |-> i - 1], pat |-> pat.ps[i]]],
                  1, kenv, env, y, lc, fuel)
  ELSE BindPats(pat.es, 1, kenv, env, y, lc, fuel)

BindPats(es, k, kenv, env, y, lc, fuel) ==
  IF k > Len(es) THEN One(env)
  ELSE Bind(Ev("run", es[k].key, kenv, Pv0(y), lc, fuel),
            LAMBDA kv :
              IF HasIErr(y) \/ HasIErr(kv.v) THEN End(UnkT)
              ELSE LET r == Index(y, kv.v)
                   IN IF IsFail(r) THEN ErrS(r.v)
                      ELSE Bind(BindPat(es[k].pat, kenv, env, r, lc, fuel),
                                LAMBDA e : BindPats(es, k + 1, kenv, e, y, lc, fuel)))

\* arguments of a call to a definition: variable arguments as cartesian product in
\* argument order, filter arguments as closures over the caller's environment
BindArgs(params, args, k, cenv, env, v, lc, fuel) ==
  IF k > Len(params) THEN One(env)
  ELSE IF params[k].var
       THEN Bind(Ev("run", args[k], cenv, Pv0(v), lc, fuel),
                 LAMBDA y : BindArgs(params, args, k + 1, cenv, Append(env, VarB(params[k].n, y.v)), v, lc, fuel))
       ELSE BindArgs(params, args, k + 1, cenv, Append(env, ArgB(params[k].n, args[k], cenv)), v, lc, fuel)

\* all combinations of the index filters of a compound path, first part outermost;
\* index filters run on the original input v
Combos(parts, k, env, v, lc, fuel) ==
  IF k > Len(parts) THEN One(<<>>)
  ELSE LET p == parts[k]
           run(t) == Ev("run", t, env, Pv0(v), lc, fuel)
           heads ==
             IF p.p = "idx" THEN Bind(run(p.i), LAMBDA y : One([p |-> "idx", i |-> y.v, opt |-> p.opt]))
             ELSE IF ~p.hi /\ ~p.hj THEN One([p |-> "iter", opt |-> p.opt])
             ELSE IF p.hi /\ ~p.hj THEN
                    Bind(run(p.i), LAMBDA y : One([p |-> "rng", hi |-> TRUE, i |-> y.v, hj |-> FALSE, opt |-> p.opt]))
             ELSE IF ~p.hi /\ p.hj THEN
                    Bind(run(p.j), LAMBDA y : One([p |-> "rng", hi |-> FALSE, hj |-> TRUE, j |-> y.v, opt |-> p.opt]))
             ELSE Prod2(run(p.i), run(p.j),
                        LAMBDA a, b : One([p |-> "rng", hi |-> TRUE, i |-> a.v, hj |-> TRUE, j |-> b.v, opt |-> p.opt]))
       IN Bind(heads, LAMBDA h : Bind(Combos(parts, k + 1, env, v, lc, fuel), LAMBDA rest : One(<< h >> \o rest)))

(***************************************************************************)
(* reduce / foreach (manual: "reduce / foreach" expansions)                *)
(*   xs : stream of environments (one per element, already destructured)   *)
(***************************************************************************)
FoldRun(m, t, xs, j, acc, env, lc, fuel) ==
  IF j > Len(xs.o)
  THEN IF ~IsOk(xs) THEN End(xs.e)
       ELSE IF t.name = "reduce" THEN One(acc) ELSE Emp
  ELSE Bind(Ev(m, t.upd, xs.o[j], acc, lc, fuel),
            LAMBDA y :
              IF t.name = "reduce" THEN FoldRun(m, t, xs, j + 1, y, env, lc, fuel)
              ELSE Cat(IF "proj" \in DOMAIN t THEN Ev(m, t.proj, xs.o[j], y, lc, fuel) ELSE One(y),
                       FoldRun(m, t, xs, j + 1, y, env, lc, fuel)))

\* sequential application "binding by binding" of an update step (manual: (f as $x | g) |= u)
\*   step kinds: "as" (elem = environment), "if" (elem = condition value)
RedFold(xs, j, acc, step, lc, fuel) ==
  IF j > Len(xs.o) THEN (IF IsOk(xs) THEN One(Pv0(acc)) ELSE End(xs.e))
  ELSE LET r == IF step.s = "as" THEN Upd(step.t, xs.o[j], acc, step.u, lc, fuel)
                ELSE Upd(IF Truthy(xs.o[j].v) THEN step.t ELSE step.e, step.env, acc, step.u, lc, fuel)
       IN Bind(r, LAMBDA y : RedFold(xs, j + 1, y.v, step, lc, fuel))

-----------------------------------------------------------------------------
Ev(m, t, env, x, lc, fuel) ==
  LET v       == x.v
      PathErr == ErrS(IErr)          \* path(f) of a value-constructing f fails
      Con(s)  == IF m = "run" THEN s ELSE PathErr
      R(tt, xx) == Ev(m, tt, env, xx, lc, fuel)
      RunV(tt)  == Ev("run", tt, env, Pv0(v), lc, fuel)
  IN
  CASE t.k = "id" -> One(x)
    [] t.k = "recurse" -> IF HasIErr(v) \/ HasUo(v) THEN End(UnkT) ELSE S(RecAll(x), Ok)
    [] t.k = "num" -> Con(One(Pv0(IntV(t.n))))
    [] t.k = "bignum" -> Con(One(Pv0(MkInt(Z(t.neg, Strip(t.d))))))     \* an integer literal of any size
    [] t.k = "str" ->
         IF m # "run" THEN PathErr
         ELSE LET part(i) ==
                    IF t.parts[i].p = "s" THEN One(Pv0(StrV(t.parts[i].c)))
                    ELSE IF "fmt" \in DOMAIN t
                         THEN Bind(RunV(t.parts[i].f),
                                   LAMBDA y : Ev("run", [k |-> "call", f |-> t.fmt, args |-> <<>>], env, y, lc, fuel))
                         ELSE Bind(RunV(t.parts[i].f), LAMBDA y : FromR(ToStr(y.v)))
                  RECURSIVE sum(_)
                  sum(n) == IF n = 0 THEN One(Pv0(StrV(<<>>)))
                            ELSE IF n = 1 THEN part(1)
                            ELSE Prod2(sum(n - 1), part(n), LAMBDA a, b : FromR(MathOp("+", a.v, b.v)))
              IN sum(Len(t.parts))
    [] t.k = "arr" ->
         IF m # "run" THEN PathErr
         ELSE IF "f" \notin DOMAIN t THEN One(Pv0(ArrV(<<>>)))
         ELSE LET s == RunV(t.f)
              IN IF IsOk(s) THEN One(Pv0(ArrV([i \in 1..Len(s.o) |-> s.o[i].v]))) ELSE End(s.e)
    [] t.k = "obj" ->
         IF m # "run" THEN PathErr
         ELSE LET entry(i) == Prod2(RunV(t.es[i].key), RunV(t.es[i].val),
                                    LAMBDA a, b : IF HasIErr(a.v) THEN End(UnkT) ELSE One(Pv0(MkObj1(a.v, b.v))))
                  RECURSIVE sum(_)
                  sum(n) == IF n = 0 THEN One(Pv0(ObjV(<<>>)))
                            ELSE IF n = 1 THEN entry(1)
                            ELSE Prod2(sum(n - 1), entry(n), LAMBDA a, b : FromR(MathOp("+", a.v, b.v)))
              IN sum(Len(t.es))
    [] t.k = "neg" ->
         Con(Bind(RunV(t.f), LAMBDA y : FromR(IF HasIErr(y.v) THEN Unk ELSE Neg(y.v))))
    [] t.k = "bin" ->
         CASE t.op = "|" -> Bind(R(t.l, x), LAMBDA y : R(t.r, y))
           [] t.op = "," -> Cat(R(t.l, x), R(t.r, x))
           [] t.op = "//" ->
                \* f // g: the true outputs of f; if there are none, g.  An error of f is
                \* not covered by the manual: unk.  In paths mode (manual table):
                \* path(if first(f // false) then f else g end)
                LET sl   == RunV(t.l)
                    good == SelectSeq(sl.o, LAMBDA y : Truthy(y.v))
                    firstgood == IF good = <<>> THEN 0
                                 ELSE CHOOSE i \in 1..Len(sl.o) : Truthy(sl.o[i].v) /\ \A h \in 1..(i - 1) : ~Truthy(sl.o[h].v)
                IN IF m = "run"
                   THEN IF IsOk(sl) THEN (IF good = <<>> THEN R(t.r, x) ELSE S(good, Ok))
                        ELSE IF sl.e.k = "err" THEN S(good, UnkT)
                        ELSE S(good, sl.e)
                   ELSE IF good # <<>> THEN R(t.l, x)
                        ELSE IF IsOk(sl) THEN R(t.r, x)
                        ELSE IF sl.e.k = "err" THEN End(UnkT) ELSE End(sl.e)
           [] t.op \in {"or", "and"} ->
                LET stop == (t.op = "or")
                IN Con(Bind(RunV(t.l),
                            LAMBDA a : IF Truthy(a.v) = stop THEN One(Pv0(Bool(stop)))
                                       ELSE Bind(RunV(t.r), LAMBDA b : One(Pv0(Bool(Truthy(b.v)))))))
           [] t.op \in {"+", "-", "*", "/", "%"} ->
                Con(Prod2(RunV(t.l), RunV(t.r), LAMBDA a, b : FromR(MathOp(t.op, a.v, b.v))))
           [] t.op \in {"==", "!=", "<", "<=", ">", ">="} ->
                Con(Prod2(RunV(t.l), RunV(t.r), LAMBDA a, b : FromR(CmpOp(t.op, a.v, b.v))))
           [] t.op = "|=" ->
                Con(Upd(t.l, env, v, [u |-> "eval", t |-> t.r, env |-> env], lc, fuel))
           [] t.op = "=" ->
                Con(Bind(RunV(t.r), LAMBDA y : Upd(t.l, env, v, [u |-> "const", v |-> y.v], lc, fuel)))
           [] t.op \in {"+=", "-=", "*=", "/=", "%="} ->
                \* f op= g  ==  g as $x | f |= . op $x
                LET op == CASE t.op = "+=" -> "+" [] t.op = "-=" -> "-" [] t.op = "*=" -> "*"
                            [] t.op = "/=" -> "/" [] t.op = "%=" -> "%"
                IN Con(Bind(RunV(t.r), LAMBDA y : Upd(t.l, env, v, [u |-> "math", op |-> op, v |-> y.v], lc, fuel)))
           [] t.op = "//=" ->
                Con(Bind(RunV(t.r), LAMBDA y : Upd(t.l, env, v, [u |-> "alt", v |-> y.v], lc, fuel)))
           [] OTHER -> End(UnsupT)
    [] t.k = "as" ->
         \* f as pat | g : g runs on the original input (and keeps its path)
         Bind(RunV(t.l), LAMBDA y : Bind(BindPat(t.pat, env, env, y.v, lc, fuel), LAMBDA e : Ev(m, t.r, e, x, lc, fuel)))
    [] t.k = "label" ->
         LET s == Ev(m, t.f, Append(env, LblB(t.x, lc + 1)), x, lc + 1, fuel)
         IN IF s.e.k = "brk" /\ s.e.l = lc + 1 THEN S(s.o, Ok) ELSE s
    [] t.k = "break" ->
         LET i == FindB(env, {"lbl"}, t.x) IN IF i = 0 THEN End(UnsupT) ELSE End(BrkT(env[i].id))
    [] t.k = "fold" ->
         \* The manual defines a fold through the outputs of xs and does not order the start of xs against init.
         \* When init yields nothing before it ends and xs ends (by an error, halt, break or divergence) before
         \* its first output, which of the two ends is observed is left open.
         LET xs == Bind(RunV(t.xs), LAMBDA y : BindPat(t.pat, env, env, y.v, lc, fuel))
             ini == R(t.init, x)
         IN IF ini.o = <<>> /\ xs.o = <<>> /\ ~IsOk(xs) /\ xs.e # ini.e THEN End(UnkT)
            ELSE Bind(ini, LAMBDA i : FoldRun(m, t, xs, 1, i, env, lc, fuel))
    [] t.k = "try" ->
         \* paths mode (manual): try path(f) catch (g | error)
         LET s == R(t.f, x)
         IN IF s.e.k = "err"
            THEN Cat(S(s.o, Ok),
                     IF m = "run" THEN Ev("run", t.c, env, Pv0(s.e.v), lc, fuel)
                     ELSE Bind(Ev("run", t.c, env, Pv0(s.e.v), lc, fuel), LAMBDA y : ErrS(y.v)))
            ELSE s
    [] t.k = "if" ->
         Bind(RunV(t.c), LAMBDA c : IF Truthy(c.v) THEN R(t.t, x) ELSE R(t.e, x))
    [] t.k = "def" ->
         Ev(m, t.r, env \o [i \in 1..Len(t.defs) |-> DefB(t.defs[i])], x, lc, fuel)
    [] t.k = "var" ->
         LET i == FindB(env, {"var"}, t.x)
         IN IF i = 0 THEN End(UnsupT) ELSE Con(One(Pv0(env[i].v)))
    [] t.k = "call" ->
         LET i == FindF(env, t.f, Len(t.args))
         IN IF i = 0 THEN End(UnsupT)
            ELSE LET b == env[i]
                 IN IF b.b = "nat" THEN Native(m, b.x, t.args, env, x, lc, fuel)
                    ELSE IF fuel = 0 THEN End(DivT)
                    ELSE IF b.b = "arg" THEN Ev(m, b.t, b.env, x, lc, fuel)
                    ELSE Bind(BindArgs(b.params, t.args, 1, env, SubSeq(env, 1, i), v, lc, fuel),
                              LAMBDA e : Ev(m, b.body, e, x, lc, fuel - 1))
    [] t.k = "path" ->
         LET combos == Combos(t.parts, 1, env, v, lc, fuel)
         IN Bind(R(t.l, x), LAMBDA y : Bind(combos, LAMBDA c : ApplyParts(c, 1, y)))
    [] OTHER -> End(UnsupT)

(***************************************************************************)
(* updates: manual, "Pathless" table.  Result: stream of values (paths     *)
(* empty).  u is an update closure given as data, see ApplyU.              *)
(***************************************************************************)
Upd(t, env, v, u, lc, fuel) ==
  LET RunV(tt) == Ev("run", tt, env, Pv0(v), lc, fuel)
      Bad      == ErrS(IErr)
  IN
  CASE t.k = "id" -> ApplyU(u, v, lc, fuel)
    [] t.k = "recurse" -> IF HasIErr(v) THEN End(UnkT) ELSE RecUp(v, u, lc, fuel)
    [] t.k = "bin" ->
         CASE t.op = "|" -> Upd(t.l, env, v, [u |-> "upd", t |-> t.r, env |-> env, u2 |-> u], lc, fuel)
           [] t.op = "," -> Bind(Upd(t.l, env, v, u, lc, fuel), LAMBDA w : Upd(t.r, env, w.v, u, lc, fuel))
           [] t.op = "//" ->
                LET sl == RunV(t.l)
                    anygood == \E i \in 1..Len(sl.o) : Truthy(sl.o[i].v)
                IN IF anygood THEN Upd(t.l, env, v, u, lc, fuel)
                   ELSE IF IsOk(sl) THEN Upd(t.r, env, v, u, lc, fuel)
                   ELSE IF sl.e.k = "err" THEN End(UnkT) ELSE End(sl.e)
           [] OTHER -> Bad
    [] t.k = "as" ->
         LET xs == Bind(RunV(t.l), LAMBDA y : BindPat(t.pat, env, env, y.v, lc, fuel))
         IN RedFold(xs, 1, v, [s |-> "as", t |-> t.r, u |-> u], lc, fuel)
    [] t.k = "if" ->
         RedFold(RunV(t.c), 1, v, [s |-> "if", t |-> t.t, e |-> t.e, env |-> env, u |-> u], lc, fuel)
    [] t.k = "def" ->
         Upd(t.r, env \o [i \in 1..Len(t.defs) |-> DefB(t.defs[i])], v, u, lc, fuel)
    [] t.k = "fold" ->
         LET xs == Bind(RunV(t.xs), LAMBDA y : BindPat(t.pat, env, env, y.v, lc, fuel))
         IN Upd(t.init, env, v, [u |-> "fold", t |-> t, xs |-> xs, j |-> 1, u2 |-> u], lc, fuel)
    [] t.k = "call" ->
         LET i == FindF(env, t.f, Len(t.args))
         IN IF i = 0 THEN End(UnsupT)
            ELSE LET b == env[i]
                 IN IF b.b = "nat" THEN NatUpd(b.x, t.args, env, v, u, lc, fuel)
                    ELSE IF fuel = 0 THEN End(DivT)
                    ELSE IF b.b = "arg" THEN Upd(b.t, b.env, v, u, lc, fuel)
                    ELSE RedFold(BindArgs(b.params, t.args, 1, env, SubSeq(env, 1, i), v, lc, fuel), 1, v,
                                 [s |-> "as", t |-> b.body, u |-> u], lc, fuel - 1)
    [] t.k = "path" ->
         LET combos == Combos(t.parts, 1, env, v, lc, fuel)
         IN Upd(t.l, env, v, [u |-> "parts", cs |-> combos, u2 |-> u], lc, fuel)
    [] t.k = "break" ->
         LET i == FindB(env, {"lbl"}, t.x) IN IF i = 0 THEN End(UnsupT) ELSE End(BrkT(env[i].id))
    [] t.k = "label" -> End(UnkT)        \* no row in the manual's table
    [] t.k \in {"num", "bignum", "str", "arr", "obj", "neg", "var", "try"} -> Bad
    [] OTHER -> End(UnsupT)

\* apply an update closure to a value
ApplyU(u, v, lc, fuel) ==
  CASE u.u = "eval"  -> Ev("run", u.t, u.env, Pv0(v), lc, fuel)
    [] u.u = "upd"   -> Upd(u.t, u.env, v, u.u2, lc, fuel)
    [] u.u = "const" -> One(Pv0(u.v))
    [] u.u = "empty" -> Emp
    [] u.u = "math"  -> FromR(MathOp(u.op, v, u.v))
    [] u.u = "alt"   -> One(Pv0(IF Truthy(v) THEN v ELSE u.v))
    [] u.u = "recup" -> RecUp(v, u.u2, lc, fuel)
    [] u.u = "parts" ->
         \* every combination of index values in turn, each yielding exactly one value
         LET RECURSIVE go(_, _)
             go(j, w) == IF j > Len(u.cs.o) THEN (IF IsOk(u.cs) THEN One(Pv0(w)) ELSE End(u.cs.e))
                         ELSE Bind(UpdParts(u.cs.o[j], 1, w, u.u2, lc, fuel), LAMBDA z : go(j + 1, z.v))
         IN go(1, v)
    [] u.u = "rest"  -> UpdParts(u.c, u.k, v, u.u2, lc, fuel)
    [] u.u = "fold"  ->
         \* reduce: init |= (x1 as $x | upd |= ( ... |= u));  foreach adds (proj |= u) per step
         IF u.j > Len(u.xs.o)
         THEN IF ~IsOk(u.xs) THEN End(u.xs.e)
              ELSE IF u.t.name = "reduce" THEN ApplyU(u.u2, v, lc, fuel) ELSE One(Pv0(v))
         ELSE LET next == [u EXCEPT !.j = u.j + 1]
                  inner == IF u.t.name = "reduce" THEN next
                           ELSE [u |-> "fe", t |-> u.t, env |-> u.xs.o[u.j], next |-> next, u2 |-> u.u2]
              IN Upd(u.t.upd, u.xs.o[u.j], v, inner, lc, fuel)
    [] u.u = "fe" ->
         Bind(IF "proj" \in DOMAIN u.t THEN Upd(u.t.proj, u.env, v, u.u2, lc, fuel) ELSE ApplyU(u.u2, v, lc, fuel),
              LAMBDA z : ApplyU(u.next, z.v, lc, fuel))

\* update through the parts k.. of one evaluated compound path
UpdParts(c, k, w, u, lc, fuel) ==
  LET inner == IF k = Len(c) THEN u ELSE [u |-> "rest", c |-> c, k |-> k + 1, u2 |-> u]
      part  == c[k]
  IN IF HasIErr(w) THEN End(UnkT)
     ELSE IF part.p = "idx" THEN IndexUpd(w, part.i, part.opt, inner, lc, fuel)
     ELSE IF part.p = "iter" THEN IterUpd(w, part.opt, inner, lc, fuel)
     ELSE SliceUpd(w, IF part.hi THEN part.i ELSE Null, IF part.hj THEN part.j ELSE Null, part.opt, inner, lc, fuel)

\* .. |= u   ==   def rec_up: (.[]? | rec_up), .; rec_up |= u
RecUp(v, u, lc, fuel) ==
  Bind(IterUpd(v, TRUE, [u |-> "recup", u2 |-> u], lc, fuel), LAMBDA w : ApplyU(u, w.v, lc, fuel))

\* .[] |= u  (iter_upd): arrays take all outputs of u, objects the first (none: entry removed)
IterUpd(w, opt, u, lc, fuel) ==
  IF w.t = "arr" THEN
    LET s == CatAll([i \in 1..Len(w.a) |-> ApplyU(u, w.a[i], lc, fuel)], 1)
    IN IF IsOk(s) THEN One(Pv0(ArrV([i \in 1..Len(s.o) |-> s.o[i].v]))) ELSE End(s.e)
  ELSE IF w.t = "obj" THEN
    LET rs == [i \in 1..Len(w.o) |-> ApplyU(u, w.o[i][2], lc, fuel)]
        \* the first i whose update does not deliver a first output normally
        bad == {i \in 1..Len(rs) : rs[i].o = <<>> /\ ~IsOk(rs[i])}
        gone == \E i \in 1..Len(rs) : rs[i].o = <<>>
    IN IF bad # {} THEN End(rs[CHOOSE i \in bad : \A h \in bad : i <= h].e)
       ELSE One(Pv0([t |-> "obj",
                     o |-> FlatSeq([i \in 1..Len(rs) |-> IF rs[i].o = <<>> THEN <<>> ELSE << << w.o[i][1], rs[i].o[1].v >> >>]),
                     uo |-> w.uo]))
  ELSE IF opt THEN One(Pv0(w)) ELSE ErrS(IErr)

\* .[$i] |= u  (index_upd)
IndexUpd(w, i, opt, u, lc, fuel) ==
  LET fail == IF opt THEN One(Pv0(w)) ELSE ErrS(IErr)
  IN IF HasIErr(i) THEN End(UnkT)
     ELSE IF w.t \in {"arr", "str", "bytes"} /\ i.t = "obj"
     THEN SliceUpd(w, ObjGet(i.o, StrV(Ascii("start"))), ObjGet(i.o, StrV(Ascii("end"))), opt, u, lc, fuel)
     ELSE IF w.t = "arr" THEN
       IF ~IsInt(i) THEN fail
       ELSE LET len == Len(w.a)  n == NumP(i)  a == IF n < 0 THEN len + n ELSE n
            IN IF a < 0 \/ a >= len THEN fail
               ELSE LET s == ApplyU(u, w.a[a + 1], lc, fuel)
                    IN IF s.o # <<>> THEN One(Pv0(ArrV([w.a EXCEPT ![a + 1] = s.o[1].v])))
                       ELSE IF IsOk(s) THEN One(Pv0(ArrV(SubSeq(w.a, 1, a) \o SubSeq(w.a, a + 2, len))))
                       ELSE End(s.e)
     ELSE IF w.t = "obj" THEN
       LET has == ObjHas(w.o, i)
           s == ApplyU(u, IF has THEN ObjGet(w.o, i) ELSE Null, lc, fuel)
       IN IF s.o # <<>> THEN One(Pv0([w EXCEPT !.o = ObjPut(w.o, i, s.o[1].v)]))
          ELSE IF ~IsOk(s) THEN End(s.e)
          ELSE IF ~has THEN One(Pv0(w))
          \* deleting from an object: the order of the remaining keys is not specified
          ELSE One(Pv0([t |-> "obj", o |-> ObjDel(w.o, i), uo |-> (w.uo \/ ObjFind(w.o, i, 1) < Len(w.o))]))
     ELSE fail

\* .[$i:$j] |= u  (slice_upd): splice the first output of u (none: remove the slice)
SliceUpd(w, i, j, opt, u, lc, fuel) ==
  LET fail == IF opt THEN One(Pv0(w)) ELSE ErrS(IErr)
  IN IF HasIErr(i) \/ HasIErr(j) THEN End(UnkT)
     ELSE IF w.t \notin {"arr", "str", "bytes"} THEN fail
     ELSE IF ~(IsBound(i) /\ IsBound(j)) THEN fail
     ELSE LET el == Elems(w)
              from == Bound(i, Len(el), 0)
              upto == Max(Bound(j, Len(el), Len(el)), from)
              s == ApplyU(u, Rewrap(w, SubSeq(el, from + 1, upto)), lc, fuel)
              splice(mid) == One(Pv0(Rewrap(w, SubSeq(el, 1, from) \o mid \o SubSeq(el, upto + 1, Len(el)))))
          IN IF s.o = <<>> THEN (IF IsOk(s) THEN splice(<<>>) ELSE End(s.e))
             ELSE LET y == s.o[1].v
                  IN IF y.t = w.t THEN splice(Elems(y))
                     ELSE IF y.t = "null" \/ HasIErr(y) THEN End(UnkT)
                     ELSE ErrS(IErr)

-----------------------------------------------------------------------------
(* named filters implemented natively; everything else is in Prelude below *)
Native(m, name, args, env, x, lc, fuel) ==
  LET v       == x.v
      n       == Len(args)
      PathErr == ErrS(IErr)
      Con(s)  == IF m = "run" THEN s ELSE PathErr
      RunA(k) == Ev("run", args[k], env, Pv0(v), lc, fuel)
      EvA(k)  == Ev(m, args[k], env, x, lc, fuel)
      G(r)    == IF HasIErr(v) THEN End(UnkT) ELSE FromR(r)
      Const(c) == Con(One(Pv0(c)))
  IN
  CASE name = "empty" -> Emp
    [] name = "!ierr" -> ErrS(IErr)     \* "it fails": an error whose message the manual does not fix
    [] name = "error" /\ n = 0 -> ErrS(v)
    [] name = "error" /\ n = 1 -> Bind(RunA(1), LAMBDA y : ErrS(y.v))
    [] name = "true" -> Const(True)
    [] name = "false" -> Const(False)
    [] name = "null" -> Const(Null)
    [] name = "not" -> Const(Bool(~Truthy(v)))
    [] name = "first" /\ n = 0 ->
         \* "short form of first(.[])" but implemented as .[0]: they agree on non-empty arrays
         IF v.t = "arr" /\ v.a # <<>> THEN One(PV(v.a[1], Append(x.p, IntV(0)))) ELSE End(UnkT)
    [] name = "last" /\ n = 0 ->
         IF v.t = "arr" /\ v.a # <<>> /\ m = "run" THEN One(Pv0(v.a[Len(v.a)])) ELSE End(UnkT)
    [] name = "first" /\ n = 1 -> Take(EvA(1), 1)
    [] name = "last" /\ n = 1 ->
         LET s == EvA(1) IN IF ~IsOk(s) THEN End(s.e) ELSE IF s.o = <<>> THEN Emp ELSE One(s.o[Len(s.o)])
    [] name = "limit" ->
         Bind(RunA(1), LAMBDA c : IF ~IsInt(c.v) THEN End(UnkT)
                                  ELSE IF IntSgn(c.v) <= 0 THEN Emp ELSE IF IsHuge(c.v) THEN EvA(2) ELSE Take(EvA(2), NumP(c.v)))
    [] name = "skip" ->
         Bind(RunA(1), LAMBDA c : IF ~IsInt(c.v) THEN End(UnkT)
                                  ELSE LET s == EvA(2)  cnt == NumP(c.v)     \* a huge count: 10^9
                                       IN IF cnt <= 0 THEN s
                                          ELSE IF Len(s.o) >= cnt THEN S(SubSeq(s.o, cnt + 1, Len(s.o)), s.e)
                                          ELSE End(s.e))
    [] name = "range" /\ n = 3 ->
         Con(Bind(RunA(1), LAMBDA a : Bind(RunA(2), LAMBDA b : Bind(RunA(3), LAMBDA c :
               IF HasIErr(a.v) \/ HasIErr(b.v) \/ HasIErr(c.v) THEN End(UnkT)
               ELSE RangeFrom(a.v, b.v, c.v, Cmp(c.v, IntV(0)), RangeCap)))))
    [] name = "path" ->
         Con(Bind(Ev("paths", args[1], env, Pv0(v), lc, fuel), LAMBDA y : One(Pv0(ArrV(y.p)))))
    [] name = "path_value" ->
         Con(Bind(Ev("paths", args[1], env, Pv0(v), lc, fuel), LAMBDA y : One(Pv0(ArrV(<< ArrV(y.p), y.v >>)))))
    [] name = "getpath" ->
         Bind(RunA(1), LAMBDA p : IF HasIErr(p.v) THEN End(UnkT) ELSE GetPath(p.v, x))
    [] name = "keys_unsorted" ->
         Con(IF v.t = "obj" /\ v.uo /\ Len(v.o) > 1 THEN End(UnkT)
             ELSE G(IF CanIter(v) THEN ArrV(Keys(v)) ELSE IFail))
    [] name = "key_values" ->
         Con(IF v.t = "obj" /\ v.uo /\ Len(v.o) > 1 THEN End(UnkT)
             ELSE G(IF CanIter(v) THEN ArrV([i \in 1..Len(Keys(v)) |-> ArrV(<< Keys(v)[i], Values(v)[i] >>)]) ELSE IFail))
    [] name = "length" ->
         Con(G(CASE v.t = "null" -> IntV(0)
                 [] v.t = "bool" -> IFail
                 [] IsInt(v) -> IF IntSgn(v) < 0 THEN IntNeg(v) ELSE v
                 [] v.t = "flt" -> FltV(Abs(v.p), v.q)
                 [] v.t \in {"str", "bytes", "arr"} -> IntV(Length(v))
                 [] v.t = "obj" -> IntV(Len(v.o))
                 [] OTHER -> Unk))
    [] name = "has" ->
         Con(Bind(RunA(1), LAMBDA k : IF HasIErr(k.v) THEN End(UnkT)
                                      ELSE G(IF v.t = "null" THEN False
                                             ELSE IF v.t = "str" /\ k.v.t = "obj" THEN Unk  \* manual: "always an error" vs ".[$k] points to data"
                                             ELSE IF v.t \in {"bool", "int", "flt", "str"} THEN IFail
                                             ELSE LET r == Index(v, k.v)
                                                  IN IF ~IsVal(r) THEN r
                                                     ELSE IF v.t = "obj" THEN Bool(ObjHas(v.o, k.v))
                                                     ELSE IF IsInt(k.v) THEN Has(v, k.v)
                                                     ELSE True)))
    [] name = "tojson" -> Con(G(IF v.t = "obj" /\ v.uo /\ Len(v.o) > 1 THEN Unk ELSE ToJsonV(v)))
    [] name = "tostring" -> Con(G(IF HasUo(v) THEN Unk ELSE ToStr(v)))
    [] name = "@text" -> Con(G(IF HasUo(v) THEN Unk ELSE ToStr(v)))
    [] name = "@json" -> Con(G(IF HasUo(v) THEN Unk ELSE ToJsonV(v)))
    [] name = "sort" ->
         Con(G(IF v.t # "arr" THEN IFail
               ELSE IF \E i \in 1..Len(v.a) : HasIErr(v.a[i]) THEN Unk ELSE ArrV(SortV(v.a))))
    [] name = "reverse" ->
         \* "takes an array and reverses it"; other inputs are not covered by the manual
         Con(G(CASE v.t = "arr" -> ArrV([i \in 1..Len(v.a) |-> v.a[Len(v.a) + 1 - i]])
                 [] OTHER -> Unk))
    [] name = "tobytes" ->
         Con(G(CASE v.t = "str" -> BytesV(Utf8(v.c))
                 [] v.t = "bytes" -> v
                 [] OTHER -> Unk))
    [] name = "isempty" ->
         LET s == RunA(1)
         IN Con(IF s.o # <<>> THEN One(Pv0(False)) ELSE IF IsOk(s) THEN One(Pv0(True)) ELSE End(s.e))
    [] OTHER -> NativeColl(m, name, args, env, x, lc, fuel)

-----------------------------------------------------------------------------
(* collection built-ins (manual, stdlib "Arrays", "Membership", "Text strings"); value mode only *)
RECURSIVE Contains(_, _), IsSubSeqAt(_, _, _), RunsOf(_, _)

\* does the code point / value sequence y occur in x at 1-based position i (plain equality of elements)?
IsSubSeqAt(x, y, i) == i + Len(y) - 1 <= Len(x) /\ \A k \in 1..Len(y) : x[i + k - 1] = y[k]

\* contains($x) (manual, stdlib "contains")
Contains(a, b) ==
  CASE IsStr(a) /\ IsStr(b) /\ a.t = b.t -> \E i \in 1..(Len(BytesOf(a)) + 1) : IsSubSeqAt(BytesOf(a), BytesOf(b), i)
    [] a.t = "arr" /\ b.t = "arr" -> \A j \in 1..Len(b.a) : \E i \in 1..Len(a.a) : Contains(a.a[i], b.a[j])
    [] a.t = "obj" /\ b.t = "obj" -> \A j \in 1..Len(b.o) : ObjHas(a.o, b.o[j][1]) /\ Contains(ObjGet(a.o, b.o[j][1]), b.o[j][2])
    [] OTHER -> Eq(a, b)

\* is a text string compared for containment with a different byte string (or vice versa) somewhere?
RECURSIVE MixedStr(_, _)
MixedStr(a, b) ==
  CASE IsStr(a) /\ IsStr(b) -> a.t # b.t /\ ~Eq(a, b)
    [] a.t = "arr" /\ b.t = "arr" -> \E j \in 1..Len(b.a) : \E i \in 1..Len(a.a) : MixedStr(a.a[i], b.a[j])
    [] a.t = "obj" /\ b.t = "obj" -> \E j \in 1..Len(b.o) : ObjHas(a.o, b.o[j][1]) /\ MixedStr(ObjGet(a.o, b.o[j][1]), b.o[j][2])
    [] OTHER -> FALSE

\* maximal runs of equal keys of a key-sorted list of <<key, value>> pairs
RunsOf(kvs, acc) ==
  IF kvs = <<>> THEN (IF acc = <<>> THEN <<>> ELSE << acc >>)
  ELSE IF acc = <<>> \/ Eq(acc[1][1], Head(kvs)[1]) THEN RunsOf(Tail(kvs), Append(acc, Head(kvs)))
  ELSE << acc >> \o RunsOf(Tail(kvs), << Head(kvs) >>)

NativeColl(m, name, args, env, x, lc, fuel) ==
  LET v    == x.v
      n    == Len(args)
      RunA(k) == Ev("run", args[k], env, Pv0(v), lc, fuel)
      Con(s)  == IF m = "run" THEN s ELSE ErrS(IErr)
      G(r)    == IF HasIErr(v) THEN End(UnkT) ELSE FromR(r)
      \* key of every element under the filter argument: [f]
      keyS(i) == Ev("run", args[1], env, Pv0(v.a[i]), lc, fuel)
      badK    == {i \in 1..Len(v.a) : ~IsOk(keyS(i))}
      keyOf(i) == ArrV([j \in 1..Len(keyS(i).o) |-> keyS(i).o[j].v])
      sorted  == SortKV([i \in 1..Len(v.a) |-> << keyOf(i), v.a[i] >>])
      ByKey(F(_)) == IF v.t # "arr" THEN ErrS(IErr)
                     ELSE IF HasIErr(v) THEN End(UnkT)
                     \* "evaluates f for each value": whether the key of a single value is computed at all is left open
                     ELSE IF Len(v.a) <= 1 /\ badK # {} THEN End(UnkT)
                     ELSE IF badK # {} THEN End(keyS(CHOOSE i \in badK : \A h \in badK : i <= h).e)
                     ELSE IF \E i \in 1..Len(v.a) : HasIErr(keyOf(i)) THEN End(UnkT)
                     ELSE One(Pv0(F(sorted)))
      vals(kvs) == [i \in 1..Len(kvs) |-> kvs[i][2]]
      extremal(kvs, wantmin) ==
        IF kvs = <<>> THEN Null
        ELSE LET k0 == IF wantmin THEN kvs[1][1] ELSE kvs[Len(kvs)][1]
                 alts == SelectSeq(kvs, LAMBDA kv : Eq(kv[1], k0))
             IN IF Len(alts) = 1 THEN alts[1][2] ELSE OneOf(vals(alts))
      idF == n = 0
  IN
  CASE name = "sort_by" /\ n = 1 -> Con(ByKey(LAMBDA kvs : ArrV(vals(kvs))))
    [] name = "group_by" /\ n = 1 -> Con(ByKey(LAMBDA kvs : ArrV([i \in 1..Len(RunsOf(kvs, <<>>)) |-> ArrV(vals(RunsOf(kvs, <<>>)[i]))])))
    [] name = "unique_by" /\ n = 1 -> Con(ByKey(LAMBDA kvs : ArrV([i \in 1..Len(RunsOf(kvs, <<>>)) |-> RunsOf(kvs, <<>>)[i][1][2]])))
    [] name = "min_by" /\ n = 1 -> Con(ByKey(LAMBDA kvs : extremal(kvs, TRUE)))
    [] name = "max_by" /\ n = 1 -> Con(ByKey(LAMBDA kvs : extremal(kvs, FALSE)))
    [] name = "contains" /\ n = 1 ->
         Con(Bind(RunA(1), LAMBDA b : IF HasIErr(b.v) \/ HasIErr(v) THEN End(UnkT)
                                     ELSE IF MixedStr(v, b.v) THEN End(UnkT)   \* a text and a byte string that are not equal: not covered
                                     ELSE One(Pv0(Bool(Contains(v, b.v))))))
    [] name = "indices" /\ n = 1 ->
         Con(Bind(RunA(1), LAMBDA b :
               IF HasIErr(b.v) \/ HasIErr(v) THEN End(UnkT)
               ELSE IF v.t = "str" /\ b.v.t = "str" THEN
                      (IF b.v.c = <<>> THEN End(UnkT)
                       ELSE One(Pv0(ArrV(SelectSeq([i \in 1..Len(v.c) |-> IF IsSubSeqAt(v.c, b.v.c, i) THEN IntV(i - 1) ELSE Null],
                                                   LAMBDA e : e.t = "int")))))
               ELSE IF v.t = "arr" /\ b.v.t = "arr" THEN (IF b.v.a = <<>> THEN End(UnkT) ELSE One(Pv0(ArrV(OccFrom(v.a, b.v.a, 1)))))
               ELSE IF v.t = "arr" THEN One(Pv0(ArrV(OccFrom(v.a, << b.v >>, 1))))
               ELSE IF v.t \in {"null", "bytes"} \/ b.v.t = "bytes" THEN End(UnkT)
               ELSE ErrS(IErr)))
    [] name = "bsearch" /\ n = 1 ->
         Con(Bind(RunA(1), LAMBDA b :
               IF HasIErr(b.v) \/ HasIErr(v) THEN End(UnkT)
               ELSE IF v.t # "arr" THEN ErrS(IErr)
               ELSE IF \E i \in 1..(Len(v.a) - 1) : Cmp(v.a[i], v.a[i + 1]) > 0 THEN End(UnkT)   \* not sorted: meaningless
               ELSE LET hits == SelectSeq([i \in 1..Len(v.a) |-> IF Eq(v.a[i], b.v) THEN IntV(i - 1) ELSE Null], LAMBDA e : e.t = "int")
                        less == Cardinality({i \in 1..Len(v.a) : Cmp(v.a[i], b.v) < 0})
                    IN IF hits = <<>> THEN One(Pv0(IntV(-less - 1)))
                       ELSE IF Len(hits) = 1 THEN One(Pv0(hits[1])) ELSE One(Pv0(OneOf(hits)))))
    [] name = "transpose" /\ n = 0 ->
         Con(IF HasIErr(v) THEN End(UnkT)
             ELSE IF v.t # "arr" \/ v.a = <<>> \/ \E i \in 1..Len(v.a) : v.a[i].t # "arr" THEN End(UnkT)
             ELSE LET w == SetMax({Len(v.a[i].a) : i \in 1..Len(v.a)})
                  IN One(Pv0(ArrV([xx \in 1..w |-> ArrV([y \in 1..Len(v.a) |-> IF xx <= Len(v.a[y].a) THEN v.a[y].a[xx] ELSE Null])]))))
    [] name \in {"startswith", "endswith", "ltrimstr", "rtrimstr"} /\ n = 1 ->
         Con(Bind(RunA(1), LAMBDA b :
               IF HasIErr(b.v) \/ HasIErr(v) THEN End(UnkT)
               ELSE IF v.t # "str" \/ b.v.t # "str"
                    THEN (IF name \in {"ltrimstr", "rtrimstr"} THEN End(UnkT) ELSE ErrS(IErr))
               ELSE LET s == v.c  t == b.v.c
                        pre == Len(t) <= Len(s) /\ SubSeq(s, 1, Len(t)) = t
                        suf == Len(t) <= Len(s) /\ SubSeq(s, Len(s) - Len(t) + 1, Len(s)) = t
                    IN CASE name = "startswith" -> One(Pv0(Bool(pre)))
                         [] name = "endswith" -> One(Pv0(Bool(suf)))
                         [] name = "ltrimstr" -> One(Pv0(IF pre THEN StrV(SubSeq(s, Len(t) + 1, Len(s))) ELSE v))
                         [] name = "rtrimstr" -> One(Pv0(IF suf THEN StrV(SubSeq(s, 1, Len(s) - Len(t))) ELSE v))))
    [] name = "explode" /\ n = 0 ->
         Con(G(IF v.t = "str" THEN ArrV([i \in 1..Len(v.c) |-> IntV(v.c[i])]) ELSE IF v.t = "bytes" THEN Unk ELSE IFail))
    [] name = "implode" /\ n = 0 ->
         Con(G(IF v.t = "arr" /\ \A i \in 1..Len(v.a) : v.a[i].t = "int" /\ v.a[i].n > -256 /\ v.a[i].n < 1114112 /\ ~(v.a[i].n >= 55296 /\ v.a[i].n <= 57343) /\ ~(v.a[i].n < 0 /\ v.a[i].n > -128)
               THEN StrV([i \in 1..Len(v.a) |-> v.a[i].n]) ELSE Unk))
    [] name \in {"ascii_downcase", "ascii_upcase"} /\ n = 0 ->
         Con(G(IF v.t = "str"
               THEN StrV([i \in 1..Len(v.c) |->
                            IF name = "ascii_downcase" /\ v.c[i] >= 65 /\ v.c[i] <= 90 THEN v.c[i] + 32
                            ELSE IF name = "ascii_upcase" /\ v.c[i] >= 97 /\ v.c[i] <= 122 THEN v.c[i] - 32
                            ELSE v.c[i]])
               ELSE IF v.t = "bytes" THEN Unk ELSE IFail))
    [] name = "utf8bytelength" /\ n = 0 -> Con(G(IF IsStr(v) THEN IntV(Len(BytesOf(v))) ELSE IFail))
    \* number classes (manual, "isnan, isinfinite, isfinite, isnormal"): NaN is a number that is not infinite, hence finite;
    \* normal = a number that is neither 0 (of either sign, in any representation), NaN nor infinite
    [] name = "isnan" /\ n = 0 -> Con(G(Bool(v = NaN)))
    \* a decimal literal with an exponent may exceed the range of doubles (1e1000 == infinite): left open
    [] name \in {"isinfinite", "isfinite", "isnormal"} /\ n = 0 /\ v.t = "dec" /\ (\E i \in 1..Len(v.ds) : v.ds[i] \in {69, 101}) -> Con(G(Unk))
    [] name = "isinfinite" /\ n = 0 -> Con(G(Bool(v \in {Inf, NInf})))
    [] name = "isfinite" /\ n = 0 -> Con(G(Bool(IsNum(v) /\ v \notin {Inf, NInf})))
    [] name = "isnormal" /\ n = 0 ->
         Con(G(Bool(IsNum(v) /\ v.t # "fsp" /\ v.t # "nz" /\ (IF v.t = "big" THEN ~IntIsZero(v)
                                                                      ELSE IF v.t = "dec" THEN ~DecIsZero(v.ds)
                                                                      ELSE NumP(v) # 0))))
    \* trim, ltrim, rtrim (manual, "trim"): remove leading / trailing characters with the Unicode property White_Space
    [] name \in {"trim", "ltrim", "rtrim"} /\ n = 0 ->
         Con(G(IF v.t = "str"
               THEN LET s == v.c
                        lead == IF name = "rtrim" THEN 0
                                ELSE SetMax({k \in 0..Len(s) : \A i \in 1..k : IsWhiteSpace(s[i])})
                        trail == IF name = "ltrim" THEN 0
                                 ELSE SetMax({k \in 0..(Len(s) - lead) : \A i \in (Len(s) - k + 1)..Len(s) : IsWhiteSpace(s[i])})
                    IN StrV(SubSeq(s, lead + 1, Len(s) - trail))
               ELSE IF v.t = "bytes" THEN Unk ELSE IFail))
    \* tonumber / toboolean (manual): a number / boolean is returned unchanged, a string is parsed, anything else fails.
    \* The specified strings are integer literals of at most nine digits and the texts that spell a JSON value of another
    \* kind; all other texts (floats, exponents, blanks, NaN, ...) are left open
    [] name \in {"tonumber", "toboolean"} /\ n = 0 ->
         Con(G(IF name = "tonumber" /\ IsNum(v) THEN v
               ELSE IF name = "toboolean" /\ v.t = "bool" THEN v
               ELSE IF v.t = "bytes" THEN Unk
               ELSE IF v.t # "str" THEN IFail
               ELSE LET s == v.c
                        neg == s # <<>> /\ s[1] = 45
                        ds == IF neg THEN Tail(s) ELSE s
                        isint == ds # <<>> /\ Len(ds) <= 9 /\ (\A i \in 1..Len(ds) : ds[i] >= 48 /\ ds[i] <= 57) /\ (Len(ds) = 1 \/ ds[1] # 48)
                        RECURSIVE val(_)
                        val(k) == IF k = 0 THEN 0 ELSE 10 * val(k - 1) + (ds[k] - 48)
                        other == {Ascii("true"), Ascii("false"), Ascii("null"), Ascii("[42]"), Ascii("[true]"), Ascii("{}"), Ascii("[]"), <<>>,
                                  Ascii("abc"), Ascii("1 2"), Ascii("1,2"), Ascii("--1"), << 32 >>, Ascii("true false"), << 34, 49, 34 >>, << 34, 116, 114, 117, 101, 34 >>}
                    IN IF isint THEN (IF name = "toboolean" THEN IFail
                                      ELSE IF neg /\ val(Len(ds)) = 0 THEN Unk   \* "-0": an integer or the float -0.0
                                      ELSE IntV(IF neg THEN -val(Len(ds)) ELSE val(Len(ds))))
                       ELSE IF name = "toboolean" /\ s = Ascii("true") THEN True
                       ELSE IF name = "toboolean" /\ s = Ascii("false") THEN False
                       ELSE IF s \in other THEN IFail
                       ELSE Unk))
    [] name \in {"floor", "round", "ceil"} /\ n = 0 ->
         Con(G(IF IsInt(v) THEN IntV(NumP(v))
               ELSE IF v.t \in {"flt", "dec"} THEN
                      LET p == NumP(v)  q == NumQ(v)
                          fl == IF p >= 0 THEN p \div q ELSE -((-p + q - 1) \div q)
                          ce == IF p >= 0 THEN (p + q - 1) \div q ELSE -((-p) \div q)
                          \* round half away from zero
                          ro == IF p >= 0 THEN (2 * p + q) \div (2 * q) ELSE -((2 * (-p) + q) \div (2 * q))
                      IN IntV(CASE name = "floor" -> fl [] name = "ceil" -> ce [] name = "round" -> ro)
               ELSE IF v.t = "nz" THEN IntV(0)
               ELSE IF v.t = "fsp" THEN v
               ELSE IFail))
    [] OTHER -> End(UnsupT)

NatUpd(name, args, env, v, u, lc, fuel) ==
  LET RunA(k) == Ev("run", args[k], env, Pv0(v), lc, fuel)
  IN
  CASE name = "empty" -> One(Pv0(v))
    [] name = "error" /\ Len(args) = 0 -> ErrS(v)
    [] name = "error" /\ Len(args) = 1 ->
         LET s == RunA(1) IN IF s.o # <<>> THEN ErrS(s.o[1].v) ELSE IF IsOk(s) THEN One(Pv0(v)) ELSE End(s.e)
    [] name = "getpath" ->
         \* getpath($p) |= u  ==  reduce $p[] as $i (.; .[$i]) |= u, for every output of the argument in turn
         LET ps == RunA(1)
             RECURSIVE go(_, _)
             go(j, w) ==
               IF j > Len(ps.o) THEN (IF IsOk(ps) THEN One(Pv0(w)) ELSE End(ps.e))
               ELSE LET p == ps.o[j].v
                    IN IF HasIErr(p) THEN End(UnkT)
                       ELSE IF p.t = "null" THEN Bind(ApplyU(u, w, lc, fuel), LAMBDA z : go(j + 1, z.v))
                       ELSE IF p.t # "arr" THEN ErrS(IErr)
                       ELSE IF p.a = <<>> THEN Bind(ApplyU(u, w, lc, fuel), LAMBDA z : go(j + 1, z.v))
                       ELSE Bind(UpdParts([i \in 1..Len(p.a) |-> [p |-> "idx", i |-> p.a[i], opt |-> FALSE]], 1, w, u, lc, fuel),
                                 LAMBDA z : go(j + 1, z.v))
         IN go(1, v)
    [] name \in {"first", "last"} /\ Len(args) = 0 -> End(UnkT)   \* manual: short for first(.[]) (not updatable); jaq: .[0]
    [] name \in {"first", "last", "limit", "skip", "path", "path_value", "range", "true", "false", "null", "not",
                 "keys_unsorted", "key_values", "length", "has", "tojson", "tostring", "sort", "reverse",
                 "tobytes", "isempty", "@text", "@json", "isnan", "isinfinite", "isfinite", "isnormal"} -> ErrS(IErr)
    [] OTHER -> End(UnsupT)

-----------------------------------------------------------------------------
(* evaluation of a whole program in the prelude environment; result streams *)
(* carry values only                                                        *)
Vals(s0) == LET s == s0 IN S([i \in 1..Len(s.o) |-> s.o[i].v], s.e)
PathsOf(s0) == LET s == s0 IN S([i \in 1..Len(s.o) |-> ArrV(s.o[i].p)], s.e)
=============================================================================

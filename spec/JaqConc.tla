------------------------------- MODULE JaqConc -------------------------------
(***************************************************************************)
(* Concurrent use of compiled filters (README "multi-threaded"; property   *)
(* C19).  The compiled filters (`lut`) are shared and constant; everything *)
(* a run changes lives in the run (its position in its own output stream). *)
(* Threads start runs of any job, pull outputs one at a time in any        *)
(* interleaving, and finish.  `shared` stands for everything reachable     *)
(* from more than one run - the term tables, the native function tables,   *)
(* anything process-wide; no action of the specification writes it.        *)
(* What is claimed: whatever the interleaving and whatever ran before, a   *)
(* run of job j yields exactly Eval[j].                                    *)
(***************************************************************************)
EXTENDS Integers, Sequences, FiniteSets

CONSTANTS Threads,     \* thread identifiers
          Jobs,        \* job identifiers (a compiled filter with an input)
          Eval,        \* [Jobs -> Seq(output)]: what a job yields when it runs alone
          MaxRuns,     \* bound on the number of runs per thread (model checking only)
          Cache        \* FALSE: the specification.  TRUE: a control - a process-wide cache filled by whichever job runs first
                       \* and consulted by every run (what a lazily initialised static keyed too coarsely does); it must break
                       \* RunsEqualIsolated, otherwise that invariant would not mean anything

VARIABLES cur,      \* [Threads -> [job, pos] | "idle"]: the run in progress and the number of outputs pulled
          done,     \* [Threads -> Seq(<< job, outputs >>)]: completed runs
          part,     \* [Threads -> Seq(output)]: outputs of the run in progress
          shared    \* the state that is reachable from several runs
cvars == << cur, done, part, shared >>

Idle == [job |-> "none", pos |-> 0]
ConcInit == /\ cur = [t \in Threads |-> Idle] /\ done = [t \in Threads |-> <<>>] /\ part = [t \in Threads |-> <<>>]
            /\ shared = "compiled"

Start(t, j) == /\ cur[t] = Idle /\ Len(done[t]) < MaxRuns
               /\ cur' = [cur EXCEPT ![t] = [job |-> j, pos |-> 0]] /\ part' = [part EXCEPT ![t] = <<>>]
               /\ shared' = (IF Cache /\ shared = "compiled" THEN j ELSE shared)
               /\ UNCHANGED done
\* what a run computes from: its own job - or, in the control, whatever the cache holds
Source(t) == IF Cache /\ shared # "compiled" THEN shared ELSE cur[t].job
\* pull the next output of the run of thread t: it depends on the job and the position only
Step(t) == /\ cur[t] # Idle /\ cur[t].pos < Len(Eval[Source(t)])
           /\ part' = [part EXCEPT ![t] = Append(@, Eval[Source(t)][cur[t].pos + 1])]
           /\ cur' = [cur EXCEPT ![t].pos = @ + 1]
           /\ UNCHANGED << done, shared >>
Finish(t) == /\ cur[t] # Idle /\ cur[t].pos = Len(Eval[Source(t)])
             /\ done' = [done EXCEPT ![t] = Append(@, << cur[t].job, part[t] >>)]
             /\ cur' = [cur EXCEPT ![t] = Idle] /\ part' = [part EXCEPT ![t] = <<>>]
             /\ UNCHANGED shared
ConcNext == \E t \in Threads : (\E j \in Jobs : Start(t, j)) \/ Step(t) \/ Finish(t)

IsPrefix(s, t) == Len(s) <= Len(t) /\ SubSeq(t, 1, Len(s)) = s
\* every run in progress has produced a prefix of, and every completed run exactly, what the job yields alone
RunsEqualIsolated ==
  /\ \A t \in Threads : cur[t] # Idle => IsPrefix(part[t], Eval[cur[t].job])
  /\ \A t \in Threads : \A i \in 1..Len(done[t]) : done[t][i][2] = Eval[done[t][i][1]]
SharedIsConstant == ~Cache => shared = "compiled"
=============================================================================

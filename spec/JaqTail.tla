------------------------------- MODULE JaqTail -------------------------------
(***************************************************************************)
(* Tail recursion (property C04).                                          *)
(*                                                                         *)
(* A. The syntactic side: which positions of a term are tail positions     *)
(*    (right of `|` `,` `//` `as $x |`, both branches of if-then-else, the *)
(*    projection of foreach, after a local def), and the predicate         *)
(*    AllRecCallsTail(defs) - every call to a definition that lies on a    *)
(*    cycle of the call graph occurs in tail position.  MC_Tail enumerates *)
(*    definition nests and checks that the generator and the predicate     *)
(*    agree (positive shapes satisfy it, negative controls do not).        *)
(* B. (module JaqTramp) The mechanism: the trampoline of stack.rs/def_run   *)
(*    as a state machine.  A definition called with CatchOne / CatchAll    *)
(*    runs on an explicit stack of suspended output iterators; a thrown    *)
(*    tail call is an ITEM of a stream, whose callee body is pushed; an    *)
(*    iterator is pushed back after an item only if it may have more       *)
(*    items.  Invariant: for loop bodies of the tail-recursive shapes the  *)
(*    stack never holds more than two iterators, whatever the number of    *)
(*    iterations.                                                          *)
(***************************************************************************)
EXTENDS JaqCodec

-----------------------------------------------------------------------------
(* A *)
\* calls (name, arity) occurring in term t, split by position: [tail |-> set, non |-> set]
U2(a, b) == [tail |-> a.tail \cup b.tail, non |-> a.non \cup b.non]
AllNon(a) == [tail |-> {}, non |-> a.tail \cup a.non]
NoCalls == [tail |-> {}, non |-> {}]
RECURSIVE Calls(_)
RECURSIVE CallsSeq(_, _)
CallsSeq(ts, i) == IF i > Len(ts) THEN NoCalls ELSE U2(AllNon(Calls(ts[i])), CallsSeq(ts, i + 1))
\* the calls of a definition list that is local to a term count as calls of the term, in their own positions,
\* because a local definition called in tail position runs in place of the term
Calls(t) ==
  CASE t.k \in {"id", "num", "str", "var", "recurse", "bignum", "break"} -> NoCalls
    [] t.k = "call" -> U2([tail |-> {<< t.f, Len(t.args) >>}, non |-> {}], CallsSeq(t.args, 1))
    [] t.k = "bin" -> IF t.op \in {"|", ",", "//"} THEN U2(AllNon(Calls(t.l)), Calls(t.r)) ELSE U2(AllNon(Calls(t.l)), AllNon(Calls(t.r)))
    [] t.k = "as" -> U2(AllNon(Calls(t.l)), Calls(t.r))
    [] t.k = "if" -> U2(AllNon(Calls(t.c)), U2(Calls(t.t), IF "e" \in DOMAIN t THEN Calls(t.e) ELSE NoCalls))
    [] t.k = "fold" -> U2(U2(AllNon(Calls(t.xs)), AllNon(Calls(t.init))),
                          IF "proj" \in DOMAIN t THEN U2(AllNon(Calls(t.upd)), Calls(t.proj)) ELSE AllNon(Calls(t.upd)))
    [] t.k = "def" -> Calls(t.r)
    [] t.k = "arr" -> IF "f" \in DOMAIN t THEN AllNon(Calls(t.f)) ELSE NoCalls
    [] t.k = "try" -> U2(AllNon(Calls(t.f)), IF "c" \in DOMAIN t THEN AllNon(Calls(t.c)) ELSE NoCalls)
    [] t.k = "neg" -> AllNon(Calls(t.f))
    [] t.k = "label" -> AllNon(Calls(t.f))
    [] t.k = "path" -> AllNon(Calls(t.l))
    [] OTHER -> NoCalls

\* all definitions of a term, with nesting flattened: set of [name, ar, body]
RECURSIVE DefsIn(_)
RECURSIVE DefsInDefs(_, _)
DefsInDefs(ds, i) == IF i > Len(ds) THEN {} ELSE {[name |-> ds[i].name, ar |-> Len(ds[i].params), body |-> ds[i].body]} \cup DefsIn(ds[i].body) \cup DefsInDefs(ds, i + 1)
DefsIn(t) ==
  CASE t.k = "def" -> DefsInDefs(t.defs, 1) \cup DefsIn(t.r)
    [] t.k = "bin" -> DefsIn(t.l) \cup DefsIn(t.r)
    [] t.k = "as" -> DefsIn(t.l) \cup DefsIn(t.r)
    [] t.k = "if" -> DefsIn(t.c) \cup DefsIn(t.t) \cup (IF "e" \in DOMAIN t THEN DefsIn(t.e) ELSE {})
    [] t.k = "fold" -> DefsIn(t.upd) \cup (IF "proj" \in DOMAIN t THEN DefsIn(t.proj) ELSE {})
    [] t.k = "call" -> UNION {DefsIn(t.args[i]) : i \in 1..Len(t.args)}
    [] t.k = "arr" -> IF "f" \in DOMAIN t THEN DefsIn(t.f) ELSE {}
    [] t.k = "label" -> DefsIn(t.f)
    [] t.k = "try" -> DefsIn(t.f)
    [] t.k = "path" -> DefsIn(t.l)
    [] OTHER -> {}
\* the call graph over the definitions of the nest (names are unique in the generated nests)
CallsOfDef(d) == Calls(d.body).tail \cup Calls(d.body).non
Edges(ds) == UNION {{<< d.name, c[1] >> : c \in {c \in CallsOfDef(d) : \E e \in ds : e.name = c[1] /\ e.ar = c[2]}} : d \in ds}
RECURSIVE Reach(_, _, _)
Reach(E, R, n) == IF n = 0 THEN R ELSE Reach(E, R \cup {e[2] : e \in {e \in E : e[1] \in R}}, n - 1)
OnCycle(ds, f) == f \in Reach(Edges(ds), {e[2] : e \in {e \in Edges(ds) : e[1] = f}}, Cardinality(ds))
\* every call to a definition on a cycle is in tail position
AllRecCallsTail(t) ==
  LET ds == DefsIn(t) IN
  \A d \in ds : \A c \in Calls(d.body).non : ~(\E e \in ds : e.name = c[1] /\ e.ar = c[2] /\ OnCycle(ds, c[1]))

=============================================================================

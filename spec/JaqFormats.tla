----------------------------- MODULE JaqFormats -----------------------------
(***************************************************************************)
(* Data formats (manual, docs/formats.dj; property C14): the scalar        *)
(* decisions on which a round trip depends, per format, as functions on    *)
(* code point sequences, with the writer W_F and the reader R_F of each    *)
(* decision side by side so that TLC can check R_F(W_F(v)) = v on the      *)
(* documented domain (MC_Formats).                                         *)
(*                                                                         *)
(* YAML 1.2.2: a string may be written as a plain scalar only if the plain *)
(* scalar production accepts exactly it (no leading / trailing blanks, no  *)
(* indicators, no ": " or " #", no document marker) AND the core schema    *)
(* (plus the reader's documented extensions) resolves it to a string.      *)
(* CSV / TSV: quoting / escaping of fields and the typing of unquoted      *)
(* fields.  TOML: bare versus quoted keys.  CBOR: head of an integer.      *)
(***************************************************************************)
EXTENDS JaqCodec

IsDigit(c) == c >= 48 /\ c <= 57
IsHexDigit(c) == IsDigit(c) \/ (c >= 65 /\ c <= 70) \/ (c >= 97 /\ c <= 102)
AllOf(s, P(_)) == \A i \in 1..Len(s) : P(s[i])
Drop(s, n) == SubSeq(s, n + 1, Len(s))
StripSign(s) == IF s # <<>> /\ s[1] \in {43, 45} THEN Tail(s) ELSE s
RECURSIVE CountDigits(_)
CountDigits(s) == IF s # <<>> /\ IsDigit(s[1]) THEN 1 + CountDigits(Tail(s)) ELSE 0

\* ---- YAML core schema resolution of a plain scalar (what is NOT a string) ----
YNulls == {<<>>, << 126 >>, Ascii("null"), Ascii("Null"), Ascii("NULL")}
YBools == {Ascii("true"), Ascii("True"), Ascii("TRUE"), Ascii("false"), Ascii("False"), Ascii("FALSE")}
YInfs == {Ascii(".inf"), Ascii(".Inf"), Ascii(".INF")}
YNans == {Ascii(".nan"), Ascii(".NaN"), Ascii(".NAN")}
\* [-+]?[0-9]+ | 0o[0-7]+ | 0x[0-9a-fA-F]+ (| 0b[01]+ : extension of the reader), the radix forms also with a sign
YInt(s) ==
  LET u == StripSign(s) IN
  \/ (u # <<>> /\ AllOf(u, IsDigit))
  \/ (Len(u) > 2 /\ u[1] = 48 /\ u[2] = 120 /\ AllOf(Drop(u, 2), IsHexDigit))
  \/ (Len(u) > 2 /\ u[1] = 48 /\ u[2] = 111 /\ AllOf(Drop(u, 2), LAMBDA c : c >= 48 /\ c <= 55))
  \/ (Len(u) > 2 /\ u[1] = 48 /\ u[2] = 98 /\ AllOf(Drop(u, 2), LAMBDA c : c \in {48, 49}))
\* [-+]? ( \. [0-9]+ | [0-9]+ ( \. [0-9]* )? ) ( [eE] [-+]? [0-9]+ )?
YFloat(s) ==
  LET u == StripSign(s)
      ni == CountDigits(u)
      r1 == Drop(u, ni)
      hasdot == r1 # <<>> /\ r1[1] = 46
      nf == IF hasdot THEN CountDigits(Tail(r1)) ELSE 0
      r2 == IF hasdot THEN Drop(r1, 1 + nf) ELSE r1
      mant == (ni > 0) \/ (hasdot /\ nf > 0)
      exp == IF r2 # <<>> /\ r2[1] \in {101, 69}
             THEN LET e == StripSign(Tail(r2)) IN e # <<>> /\ AllOf(e, IsDigit)
             ELSE r2 = <<>>
  IN mant /\ exp
YSpecialFloat(s) == StripSign(s) \in YInfs \/ s \in YNans
YResolvesToString(s) == ~(s \in YNulls \/ s \in YBools \/ YInt(s) \/ YFloat(s) \/ YSpecialFloat(s))

\* ---- YAML plain scalar production, one line, flow context (ns-plain-one-line(flow-in)) ----
YIndicator(c) == c \in {45, 63, 58, 44, 91, 93, 123, 125, 35, 38, 42, 33, 124, 62, 39, 34, 37, 64, 96}
YFlowInd(c) == c \in {44, 91, 93, 123, 125}
YWhite(c) == c \in {32, 9}
\* printable and not a line break; invalid bytes (negative) are passed through by the writer and cannot be read: not printable
YNbChar(c) == c = 9 \/ (c >= 32 /\ c # 127 /\ c # 65279 /\ ~(c >= 128 /\ c <= 159 /\ c # 133) /\ c \notin {65534, 65535} /\ ~(c >= 55296 /\ c <= 57343))
YNsChar(c) == YNbChar(c) /\ ~YWhite(c)
YPlainSafe(c) == YNsChar(c) /\ ~YFlowInd(c)
YPlainFirst(s) == (YNsChar(s[1]) /\ ~YIndicator(s[1])) \/ (s[1] \in {63, 58, 45} /\ Len(s) > 1 /\ YPlainSafe(s[2]))
YPlainChar(s, i) ==
  \/ (YPlainSafe(s[i]) /\ s[i] \notin {58, 35})
  \/ (s[i] = 35 /\ YNsChar(s[i - 1]))
  \/ (s[i] = 58 /\ i < Len(s) /\ YPlainSafe(s[i + 1]))
YDocMarker(s) == Len(s) >= 3 /\ SubSeq(s, 1, 3) \in {<< 45, 45, 45 >>, << 46, 46, 46 >>} /\ (Len(s) = 3 \/ YWhite(s[4]))
YPlainOk(s) ==
  /\ s # <<>> /\ YPlainFirst(s) /\ ~YDocMarker(s)
  /\ \A i \in 2..Len(s) : YWhite(s[i]) \/ YPlainChar(s, i)
  /\ ~YWhite(s[Len(s)])                        \* blanks belong to the scalar only between two non-blank characters
YamlSafe(s) == YPlainOk(s) /\ YResolvesToString(s)

\* the specified writer / reader of a string scalar: [plain |-> BOOLEAN, c |-> characters]
YamlWriteStr(s) == [plain |-> YamlSafe(s), c |-> s]
\* what a reader makes of it: a quoted scalar is its content; a plain scalar is trimmed, cut at ": " / " #", then resolved
RECURSIVE TrimL(_), TrimR(_)
TrimL(s) == IF s # <<>> /\ YWhite(s[1]) THEN TrimL(Tail(s)) ELSE s
TrimR(s) == IF s # <<>> /\ YWhite(s[Len(s)]) THEN TrimR(SubSeq(s, 1, Len(s) - 1)) ELSE s
YamlReadStr(w) ==
  IF ~w.plain THEN [k |-> "str", c |-> w.c]
  ELSE LET t == TrimR(TrimL(w.c)) IN
       IF t # w.c \/ ~YPlainOk(t) THEN [k |-> "other"]        \* not the same scalar any more (or not a scalar at all)
       ELSE IF YResolvesToString(t) THEN [k |-> "str", c |-> t] ELSE [k |-> "typed"]
YamlRoundTrip(s) == YamlReadStr(YamlWriteStr(s)) = [k |-> "str", c |-> s]

-----------------------------------------------------------------------------
\* ---- CSV / TSV: a row of scalars <-> one line ----
\* unquoted field typing of the readers: empty -> null, true / false, a JSON number, else a string
NumberLike(s) ==      \* JSON number: -? int frac? exp?
  LET u == IF s # <<>> /\ s[1] = 45 THEN Tail(s) ELSE s
      ni == CountDigits(u)
      r1 == Drop(u, ni)
      hasdot == r1 # <<>> /\ r1[1] = 46
      nf == IF hasdot THEN CountDigits(Tail(r1)) ELSE 0
      r2 == IF hasdot THEN Drop(r1, 1 + nf) ELSE r1
      expok == IF r2 # <<>> /\ r2[1] \in {101, 69} THEN LET e == StripSign(Tail(r2)) IN e # <<>> /\ AllOf(e, IsDigit) ELSE r2 = <<>>
  IN ni > 0 /\ (ni = 1 \/ u[1] # 48) /\ (~hasdot \/ nf > 0) /\ expok
SpecialNum(s) == s \in {Ascii("NaN"), Ascii("Infinity"), Ascii("-Infinity")}
\* a string that a TSV reader (unquoted fields only) gives back as the same string
TsvStringSafe(s) == s # <<>> /\ s \notin {Ascii("true"), Ascii("false")} /\ ~NumberLike(s) /\ ~SpecialNum(s)

\* CSV reader of one line (no line breaks outside quotes): sequence of fields [q |-> quoted, c |-> content]
RECURSIVE CsvFields(_, _, _, _)
\* s: rest, cur: content so far, q: was the field quoted, inq: inside quotes
CsvFields(s, cur, q, inq) ==
  IF s = <<>> THEN << [q |-> q, c |-> cur] >>
  ELSE IF inq THEN
         IF s[1] = 34 THEN (IF Len(s) > 1 /\ s[2] = 34 THEN CsvFields(Drop(s, 2), Append(cur, 34), q, TRUE) ELSE CsvFields(Tail(s), cur, q, FALSE))
         ELSE CsvFields(Tail(s), Append(cur, s[1]), q, TRUE)
       ELSE IF s[1] = 44 THEN << [q |-> q, c |-> cur] >> \o CsvFields(Tail(s), <<>>, FALSE, FALSE)
       ELSE IF s[1] = 34 THEN CsvFields(Tail(s), cur, TRUE, TRUE)
       ELSE CsvFields(Tail(s), Append(cur, s[1]), q, FALSE)
FieldVal(f) == IF f.q THEN [k |-> "str", c |-> f.c]
               ELSE IF f.c = <<>> THEN [k |-> "null"]
               ELSE IF f.c \in {Ascii("true"), Ascii("false")} THEN [k |-> "bool", c |-> f.c]
               ELSE IF NumberLike(f.c) \/ SpecialNum(f.c) THEN [k |-> "num", c |-> f.c]
               ELSE [k |-> "str", c |-> f.c]
\* abstract scalar: [k |-> "null"] | [k |-> "bool", c] | [k |-> "num", c |-> its JSON text] | [k |-> "str", c]
CsvWriteField(x) == IF x.k = "null" THEN <<>> ELSE IF x.k = "str" THEN << 34 >> \o Dbl(x.c) \o << 34 >> ELSE x.c
CsvWriteRow(r) == JoinWith([i \in 1..Len(r) |-> CsvWriteField(r[i])], << 44 >>)
CsvReadRow(line) == LET fs == CsvFields(line, <<>>, FALSE, FALSE) IN [i \in 1..Len(fs) |-> FieldVal(fs[i])]
CsvRoundTrip(r) == r # <<>> => CsvReadRow(CsvWriteRow(r)) = r

\* TSV: no quoting; escapes \n \r \t \\ \0
RECURSIVE TsvUnesc(_)
TsvUnesc(s) ==
  IF s = <<>> THEN <<>>
  ELSE IF s[1] = 92 /\ Len(s) > 1 /\ s[2] \in {110, 114, 116, 92, 48}
       THEN << (CASE s[2] = 110 -> 10 [] s[2] = 114 -> 13 [] s[2] = 116 -> 9 [] s[2] = 92 -> 92 [] s[2] = 48 -> 0) >> \o TsvUnesc(Drop(s, 2))
       ELSE << s[1] >> \o TsvUnesc(Tail(s))
RECURSIVE SplitOn(_, _, _)
SplitOn(s, sep, cur) == IF s = <<>> THEN << cur >> ELSE IF s[1] = sep THEN << cur >> \o SplitOn(Tail(s), sep, <<>>) ELSE SplitOn(Tail(s), sep, Append(cur, s[1]))
TsvWriteField(x) == IF x.k = "null" THEN <<>> ELSE IF x.k = "str" THEN TsvEsc(x.c) ELSE x.c
TsvWriteRow(r) == JoinWith([i \in 1..Len(r) |-> TsvWriteField(r[i])], << 9 >>)
\* the reader types a field by its raw text when it had no escape, and takes it as a string when it had one
TsvReadRow(line) == LET fs == SplitOn(line, 9, <<>>) IN
  [i \in 1..Len(fs) |-> IF \E j \in 1..Len(fs[i]) : fs[i][j] = 92 THEN [k |-> "str", c |-> TsvUnesc(fs[i])] ELSE FieldVal([q |-> FALSE, c |-> fs[i]])]
TsvDomain(r) == r # <<>> /\ \A i \in 1..Len(r) : r[i].k = "str" /\ TsvStringSafe(r[i].c)
TsvRoundTrip(r) == TsvDomain(r) => TsvReadRow(TsvWriteRow(r)) = r

-----------------------------------------------------------------------------
\* ---- TOML ----
TomlBareChar(c) == (c >= 65 /\ c <= 90) \/ (c >= 97 /\ c <= 122) \/ IsDigit(c) \/ c \in {95, 45}
TomlBareKey(s) == s # <<>> /\ AllOf(s, TomlBareChar)
\* the documented domain: objects with string keys, without null, byte strings and integers beyond 64 bits
Int64Z(z) == IF z.neg THEN ZCmp(z, Z(TRUE, << 9,2,2,3,3,7,2,0,3,6,8,5,4,7,7,5,8,0,8 >>)) >= 0 ELSE ZCmp(z, Z(FALSE, << 9,2,2,3,3,7,2,0,3,6,8,5,4,7,7,5,8,0,7 >>)) <= 0
RECURSIVE TomlValue(_)
TomlValue(v) ==
  CASE v.t \in {"null", "bytes"} -> FALSE
    [] v.t = "big" -> Int64Z(ZOf(v))
    [] v.t = "arr" -> \A i \in 1..Len(v.a) : TomlValue(v.a[i])
    [] v.t = "obj" -> \A i \in 1..Len(v.o) : v.o[i][1].t = "str" /\ TomlValue(v.o[i][2])
    [] OTHER -> TRUE
\* can it be written at all (integers of any size can; reading them back is what fails)
RECURSIVE TomlWritable(_)
TomlWritable(v) ==
  CASE v.t \in {"null", "bytes"} -> FALSE
    [] v.t = "arr" -> \A i \in 1..Len(v.a) : TomlWritable(v.a[i])
    [] v.t = "obj" -> \A i \in 1..Len(v.o) : v.o[i][1].t = "str" /\ TomlWritable(v.o[i][2])
    [] OTHER -> TRUE
TomlDomain(v) == v.t = "obj" /\ TomlValue(v)

-----------------------------------------------------------------------------
\* ---- CBOR: the head of a non-negative argument n (RFC 8949, 3): additional information and number of following bytes ----
CborHeadLen(n) == IF n < 24 THEN 0 ELSE IF n < 256 THEN 1 ELSE IF n < 65536 THEN 2 ELSE 4     \* (8 beyond 2^32: outside TLC's integers)
CborHead(major, n) ==
  LET l == CborHeadLen(n) IN
  IF l = 0 THEN << major * 32 + n >>
  ELSE IF l = 1 THEN << major * 32 + 24, n >>
  ELSE IF l = 2 THEN << major * 32 + 25, n \div 256, n % 256 >>
  ELSE << major * 32 + 26, n \div 16777216, (n \div 65536) % 256, (n \div 256) % 256, n % 256 >>
CborInt(n) == IF n >= 0 THEN CborHead(0, n) ELSE CborHead(1, -1 - n)
CborDecodeHead(b) ==
  LET ai == b[1] % 32 IN
  IF ai < 24 THEN [major |-> b[1] \div 32, n |-> ai, len |-> 1]
  ELSE IF ai = 24 THEN [major |-> b[1] \div 32, n |-> b[2], len |-> 2]
  ELSE IF ai = 25 THEN [major |-> b[1] \div 32, n |-> b[2] * 256 + b[3], len |-> 3]
  ELSE [major |-> b[1] \div 32, n |-> ((b[2] * 256 + b[3]) * 256 + b[4]) * 256 + b[5], len |-> 5]
CborIntRoundTrip(n) == LET h == CborDecodeHead(CborInt(n)) IN (IF h.major = 0 THEN h.n ELSE -1 - h.n) = n /\ h.len = Len(CborInt(n))
=============================================================================

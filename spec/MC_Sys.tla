------------------------------- MODULE MC_Sys -------------------------------
(* the automaton admits the intended runs (non-vacuity) and nothing else *)
EXTENDS JaqSys
Init == \E tz \in BOOLEAN : SysInit(tz)
Next == BeginLoad \/ (\E tz \in BOOLEAN : BeginExec(tz)) \/ (\E c \in {"runtime", "load", "input", "tz", "other"} : OpenRead(c) /\ reads < 4) \/ Exit
Spec == Init /\ [][Next]_svars
\* reachability (checked as violated invariants in the negative): a load file can be read, then an input, then the tz database
CanReadAll == ~(phase = "exec" /\ reads >= 3 /\ tzok)
NeverOther == TRUE
=============================================================================

------------------------------- MODULE MC_Tail -------------------------------
(***************************************************************************)
(* C04: the definition nests whose recursive calls are all tail calls.     *)
(* Every case is one initial state: a program over the variable $n (the    *)
(* number of iterations) and the null input.  TLC checks the syntactic     *)
(* predicate on each (positive shapes satisfy AllRecCallsTail, controls do *)
(* not) and computes the output stream for $n = 3 with JaqSem; the harness *)
(* checks that stream and then measures the real code at $n = N and 2N on  *)
(* a small fixed stack with a counting allocator.                          *)
(***************************************************************************)
EXTENDS JaqTail, Json

CONSTANTS Suite
VARIABLES cs, done

Step == TBin("+", TId, TNum(1))
N == TVar("n")
LtN == TBin("<", TId, N)
GeN == TBin(">=", TId, N)
Fe(xs, x, init, upd, proj) == [k |-> "fold", name |-> "foreach", xs |-> xs, pat |-> [p |-> "var", x |-> x], init |-> init, upd |-> upd, proj |-> proj]

\* the loop body around a recursive call c, the call in tail position tp
Loop(tp, c) ==
  CASE tp = "pipe" -> TIf(LtN, TPipe(Step, c), TId)
    [] tp = "comma" -> TIf(LtN, TComma(TC0("empty"), TPipe(Step, c)), TId)
    [] tp = "comma-out" -> TIf(LtN, TComma(TId, TPipe(Step, c)), TId)
    [] tp = "alt" -> TBin("//", TIf(LtN, TC0("empty"), TId), TPipe(Step, c))
    [] tp = "as" -> TIf(LtN, TAs(Step, "x", TPipe(TVar("x"), c)), TId)
    [] tp = "else" -> TIf(GeN, TId, TPipe(Step, c))
    [] tp = "localdef" -> TIf(LtN, TDefs(<< TDef("st", <<>>, Step) >>, TPipe(TC0("st"), c)), TId)
    [] tp = "foreach" -> Fe(TNum(1), "x", TId, Step, TIf(LtN, c, TId))
    [] tp = "elif" -> TIf(TBin("==", TId, TNum(-1)), TId, TIf(LtN, TPipe(Step, c), TId))
\* controls: the call is NOT in tail position
NonTail(tp, c) ==
  CASE tp = "plus" -> TIf(LtN, TBin("+", TPipe(Step, c), TNum(0)), TId)
    [] tp = "left-pipe" -> TIf(LtN, TPipe(TPipe(Step, c), TId), TId)
    [] tp = "arr" -> TIf(LtN, TPath(TArr(TPipe(Step, c)), << PIdx(TNum(0)) >>), TId)
    [] tp = "try" -> TIf(LtN, TTry(TPipe(Step, c), TId), TId)
    [] tp = "left-comma" -> TIf(LtN, TComma(TPipe(Step, c), TC0("empty")), TId)
TailPos == {"pipe", "comma", "comma-out", "alt", "as", "else", "localdef", "foreach", "elif"}
NonTailPos == {"plus", "left-pipe", "arr", "try", "left-comma"}

D1(name, params, body) == << TDef(name, params, body) >>
On0(t) == TPipe(TNum(0), t)
\* how the call gets back to the loop
Nest(kind, L(_)) ==
  CASE kind = "self" -> TDefs(D1("f", <<>>, L(TC0("f"))), On0(TC0("f")))
    [] kind = "parent" -> TDefs(D1("f", <<>>, TDefs(D1("g", <<>>, L(TC0("f"))), TC0("g"))), On0(TC0("f")))
    [] kind = "grandparent" -> TDefs(D1("f", <<>>, TDefs(D1("g", <<>>, TDefs(D1("h", <<>>, L(TC0("f"))), TC0("h"))), TC0("g"))), On0(TC0("f")))
    [] kind = "sibling" ->     \* f > (g, h): h tail-calls its earlier sibling g, g tail-calls the parent
         TDefs(D1("f", <<>>, TDefs(<< TDef("g", <<>>, TC0("f")), TDef("h", <<>>, L(TC0("g"))) >>, TC0("h"))), On0(TC0("f")))
    [] kind = "uncle" ->       \* f > g > h: h tail-calls g (its parent), g is called from f
         TDefs(D1("f", <<>>, TDefs(D1("g", <<>>, TDefs(D1("h", <<>>, L(TC0("g"))), TC0("h"))), TC0("g"))), On0(TC0("f")))
    [] kind = "alternate" ->   \* g tail-calls itself and its parent in turn
         TDefs(D1("f", <<>>, TDefs(D1("g", <<>>, TIf(TBin("==", TBin("%", TId, TNum(2)), TNum(0)), L(TC0("g")), L(TC0("f")))), TC0("g"))), On0(TC0("f")))
    [] kind = "var-arg" -> TDefs(D1("f", << PVv("a") >>, L(TC1("f", TVar("a")))), On0(TC1("f", TNum(1))))
    [] kind = "var-arg-parent" -> TDefs(D1("f", << PVv("a") >>, TDefs(D1("g", <<>>, L(TC1("f", TVar("a")))), TC0("g"))), On0(TC1("f", TNum(1))))
    [] kind = "fil-arg" -> TDefs(D1("f", << PF("s") >>, L(TC1("f", TC0("s")))), On0(TC1("f", Step)))
    [] kind = "fil-arg-used" -> TDefs(D1("f", << PF("s") >>, TIf(LtN, TPipe(TC0("s"), TC1("f", TC0("s"))), TId)), On0(TC1("f", Step)))
NestKinds == {"self", "parent", "grandparent", "sibling", "uncle", "alternate", "var-arg", "var-arg-parent", "fil-arg", "fil-arg-used"}

Case(name, prog, heap, positive) ==
  [name |-> name, prog |-> prog, heap |-> heap, positive |-> positive,
   tailok |-> AllRecCallsTail(prog),
   expect |-> Vals(Ev("run", prog, Prelude \o << VarB("n", IntV(3)) >>, Pv0(Null), 0, 24))]

Wraps == {"none", "first", "limit", "label", "path"}
Wrap(w, t) ==
  CASE w = "none" -> TC1("last", t)
    [] w = "first" -> TC1("first", t)
    [] w = "limit" -> TArr(TC2("limit", TNum(1), t))
    [] w = "label" -> TLabel("l", TPipe(t, TComma(TId, TBreak("l"))))

UserCases == {Case(k \o "/" \o tp, Wrap("none", Nest(k, LAMBDA c : Loop(tp, c))), TRUE, TRUE) : k \in NestKinds, tp \in TailPos}
WrapCases == {Case(k \o "/" \o tp \o "/" \o w, Wrap(w, Nest(k, LAMBDA c : Loop(tp, c))), TRUE, TRUE) : k \in {"self", "parent", "sibling"}, tp \in {"pipe", "comma-out", "alt"}, w \in {"first", "limit", "label"}}
ControlCases == {Case("control/" \o k \o "/" \o tp, Wrap("none", Nest(k, LAMBDA c : NonTail(tp, c))), TRUE, FALSE) : k \in {"self", "parent"}, tp \in NonTailPos}

Sel(c) == TIf(c, TId, TC0("empty"))
Builtins ==
  << << "recurse/1", TPipe(TNum(0), TC1("last", TC1("recurse", TIf(LtN, Step, TC0("empty"))))), TRUE >>,
     << "recurse/2", TPipe(TNum(0), TC1("last", TC2("recurse", Step, TBin("<=", TId, N)))), TRUE >>,
     << "repeat", TC1("last", TC2("limit", N, TPipe(TNum(0), TC1("repeat", Step)))), TRUE >>,
     << "repeat-const", TC1("last", TC2("limit", N, TC1("repeat", TNum(1)))), TRUE >>,
     << "while", TPipe(TNum(0), TC1("last", TC2("while", LtN, Step))), TRUE >>,
     << "until", TPipe(TNum(0), TC2("until", GeN, Step)), TRUE >>,
     << "range/1", TC1("last", TC1("range", N)), TRUE >>,
     << "range/3", TC1("last", TCall("range", << TNum(0), N, TNum(1) >>)), TRUE >>,
     << "limit-recurse", TPipe(TNum(0), TC1("last", TC2("limit", N, TC1("recurse", Step)))), TRUE >>,
     << "first-recurse", TPipe(TNum(0), TC1("first", TPipe(TC1("recurse", Step), Sel(GeN)))), TRUE >>,
     << "label-recurse", TLabel("l", TPipe(TNum(0), TPipe(TC1("recurse", Step), TIf(GeN, TComma(TId, TBreak("l")), TC0("empty"))))), TRUE >>,
     << "reduce", TReduce(TC1("range", N), "x", TNum(0), Step), TRUE >>,
     << "foreach", TC1("last", TForeach(TC1("range", N), "x", TNum(0), Step)), TRUE >>,
     << "dotdot", TPipe(TArr(TC1("range", N)), TC1("last", TRec)), FALSE >>,
     << "path-repeat", TC1("last", TC1("path", TC2("limit", N, TC1("repeat", TId)))), TRUE >>,
     << "path-recurse", TC1("last", TC1("path", TC2("limit", N, TC1("recurse", TId)))), TRUE >>,
     << "path-user", TDefs(D1("f", <<>>, TComma(TId, TC0("f"))), TC1("last", TC1("path", TC2("limit", N, TC0("f"))))), TRUE >>,
     << "path-user-pipe", TDefs(D1("f", <<>>, TComma(TId, TPipe(TId, TC0("f")))), TC1("last", TC1("path", TC2("limit", N, TC0("f"))))), TRUE >>,
     << "paths-dotdot", TPipe(TArr(TC1("range", N)), TC1("last", TC1("path", TRec))), FALSE >>,
     \* path mode with a counter in a variable argument, the tail call below bindings made since the definition
     << "path-vararg", TC1("path", TDefs(D1("f", << PVv("a") >>, TIf(TBin(">", TVar("a"), TNum(0)), TC1("f", TBin("-", TVar("a"), TNum(1))), TId)), TC1("f", N))), TRUE >>,
     << "path-vararg-as", TC1("path", TDefs(D1("f", << PVv("a") >>, TIf(TBin(">", TVar("a"), TNum(0)), TAs(TBin("-", TVar("a"), TNum(1)), "b", TC1("f", TVar("b"))), TId)), TC1("f", N))), TRUE >>,
     << "run-vararg-as", TDefs(D1("f", << PVv("a") >>, TIf(TBin(">", TVar("a"), TNum(0)), TAs(TBin("-", TVar("a"), TNum(1)), "b", TC1("f", TVar("b"))), TVar("a"))), TC1("f", N)), TRUE >>,
     \* the loop state is a container and the way to the tail call goes through constant path indices
     << "state-array", TPipe(TArr(TNum(0)), TPipe(TDefs(D1("f", <<>>, TIf(TBin("<", TAt(TNum(0)), N), TPipe(TArr(TBin("+", TAt(TNum(0)), TNum(1))), TC0("f")), TId)), TC0("f")), TAt(TNum(0)))), TRUE >>,
     << "state-object", TPipe(TObj(<< TE(TStr(<< 97 >>), TNum(0)) >>),
                              TPipe(TDefs(D1("f", <<>>, TIf(TBin("<", TKey("a"), N), TPipe(TObj(<< TE(TStr(<< 97 >>), TBin("+", TKey("a"), TNum(1))) >>), TC0("f")), TId)), TC0("f")), TKey("a"))), TRUE >>,
     << "state-array-as", TPipe(TArr(TNum(0)), TPipe(TDefs(D1("f", <<>>, TIf(TBin("<", TAt(TNum(0)), N), TAs(TAt(TNum(0)), "x", TPipe(TArr(TBin("+", TVar("x"), TNum(1))), TC0("f"))), TId)), TC0("f")), TAt(TNum(0)))), TRUE >> >>
BuiltinCases == {Case("builtin/" \o Builtins[i][1], Builtins[i][2], Builtins[i][3], TRUE) : i \in 1..Len(Builtins)}

AllCases == CASE Suite = "user" -> UserCases [] Suite = "wrap" -> WrapCases [] Suite = "control" -> ControlCases [] Suite = "builtin" -> BuiltinCases
Init == cs \in AllCases /\ done = FALSE
Emit == ~done /\ done' = TRUE /\ UNCHANGED cs /\ PrintT(<< "VEC", ToJson(cs) >>)
Spec == Init /\ [][Emit]_<< cs, done >>
\* the generator and the predicate agree
PredicateAgrees == (cs.positive /\ Suite # "builtin") => cs.tailok
ControlsAreNotTail == ~cs.positive => ~cs.tailok
\* for $n = 3 the specification gives a complete stream
Specified == cs.expect.e.k \in {"ok", "brk"}
=============================================================================

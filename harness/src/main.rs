//! Conformance harness binding /verif/spec to the jaq implementation in /repo.
//!
//!   replay  <vectors.ndjson> <results.ndjson> [jobs]   specification -> implementation
//!   worker                                             (internal) one vector per stdin line
//!   record  <cases.ndjson>   <trace.ndjson>            implementation -> specification
//!   text    <vectors.ndjson>                           print the jq text of each vector

mod conc;
mod enc;
mod run;
mod sysdrv;

/// Counting allocator: live and peak heap bytes of the process (used by the `tailrec` measurement).
pub mod alloc_count {
    use std::alloc::{GlobalAlloc, Layout, System};
    use std::sync::atomic::{AtomicUsize, Ordering::Relaxed};
    pub static LIVE: AtomicUsize = AtomicUsize::new(0);
    pub static PEAK: AtomicUsize = AtomicUsize::new(0);
    pub struct Counting;
    unsafe impl GlobalAlloc for Counting {
        unsafe fn alloc(&self, l: Layout) -> *mut u8 {
            let p = System.alloc(l);
            if !p.is_null() {
                let live = LIVE.fetch_add(l.size(), Relaxed) + l.size();
                PEAK.fetch_max(live, Relaxed);
            }
            p
        }
        unsafe fn dealloc(&self, p: *mut u8, l: Layout) {
            LIVE.fetch_sub(l.size(), Relaxed);
            System.dealloc(p, l)
        }
        unsafe fn realloc(&self, p: *mut u8, l: Layout, new: usize) -> *mut u8 {
            let q = System.realloc(p, l, new);
            if !q.is_null() {
                if new >= l.size() {
                    let live = LIVE.fetch_add(new - l.size(), Relaxed) + (new - l.size());
                    PEAK.fetch_max(live, Relaxed);
                } else {
                    LIVE.fetch_sub(l.size() - new, Relaxed);
                }
            }
            q
        }
    }
    /// start a measurement: peak := live; returns live
    pub fn reset() -> usize {
        let live = LIVE.load(Relaxed);
        PEAK.store(live, Relaxed);
        live
    }
    pub fn peak() -> usize {
        PEAK.load(Relaxed)
    }
}

#[global_allocator]
static GLOBAL: alloc_count::Counting = alloc_count::Counting;

use serde_json::{json, Value as J};
use std::io::{BufRead, BufReader, Write};
use std::process::{Command, Stdio};
use std::sync::mpsc;
use std::time::Duration;

fn timeout_s() -> u64 {
    std::env::var("HARNESS_TIMEOUT").ok().and_then(|s| s.parse().ok()).unwrap_or(20)
}

fn worker() {
    let stdin = std::io::stdin();
    let stdout = std::io::stdout();
    std::panic::set_hook(Box::new(|_| {}));
    for line in stdin.lock().lines() {
        let line = line.unwrap();
        if line.trim().is_empty() {
            continue;
        }
        let vec: J = match serde_json::from_str(&line) {
            Ok(v) => v,
            Err(e) => {
                let mut o = stdout.lock();
                writeln!(o, "{}", json!({"ok": false, "why": format!("bad vector: {e}")})).unwrap();
                o.flush().unwrap();
                continue;
            }
        };
        let res = std::panic::catch_unwind(|| match vec["mode"].as_str().unwrap_or("run") {
            "record" => record_one(&vec),
            "parse" => run::check_parse(&vec),
            "tailrec" => run::measure_tail(&vec),
            "reject" => run::check_reject(&vec),
            _ => run::check_vector(&vec),
        });
        let res = match res {
            Ok(r) => r,
            Err(p) => {
                let msg = p.downcast_ref::<String>().cloned().or_else(|| p.downcast_ref::<&str>().map(|s| s.to_string())).unwrap_or_default();
                json!({"id": vec["id"], "ok": false, "panic": true, "why": format!("panic: {msg}"),
                       "text": enc::to_text(&vec["prog"]).unwrap_or_default(), "vec": vec})
            }
        };
        let mut o = stdout.lock();
        writeln!(o, "{}", res).unwrap();
        o.flush().unwrap();
    }
}

/// Run lines through worker processes; a worker that dies (stack overflow, abort) or hangs is
/// data: the vector it was working on is reported, the rest continues in a fresh worker.
fn farm(lines: Vec<String>, jobs: usize, out: &mut dyn Write) -> (usize, usize) {
    let exe = std::env::current_exe().unwrap();
    let chunks: Vec<Vec<String>> = {
        let mut c = vec![Vec::new(); jobs.max(1)];
        for (i, l) in lines.into_iter().enumerate() {
            c[i % jobs.max(1)].push(l);
        }
        c
    };
    let (tx, rx) = mpsc::channel::<String>();
    let mut handles = Vec::new();
    for chunk in chunks {
        let tx = tx.clone();
        let exe = exe.clone();
        handles.push(std::thread::spawn(move || {
            let mut idx = 0;
            while idx < chunk.len() {
                let mut child = Command::new(&exe).arg("worker").stdin(Stdio::piped()).stdout(Stdio::piped()).stderr(Stdio::null()).spawn().unwrap();
                let mut cin = child.stdin.take().unwrap();
                let cout = child.stdout.take().unwrap();
                let (ltx, lrx) = mpsc::channel::<String>();
                let reader = std::thread::spawn(move || {
                    for l in BufReader::new(cout).lines() {
                        match l {
                            Ok(l) => {
                                if ltx.send(l).is_err() {
                                    break;
                                }
                            }
                            Err(_) => break,
                        }
                    }
                });
                // feed one line at a time so that a crash is attributed to the right vector
                let mut died = false;
                while idx < chunk.len() {
                    if writeln!(cin, "{}", chunk[idx]).and_then(|_| cin.flush()).is_err() {
                        died = true;
                    }
                    let got = if died { Err(mpsc::RecvTimeoutError::Disconnected) } else { lrx.recv_timeout(Duration::from_secs(timeout_s())) };
                    match got {
                        Ok(l) => {
                            tx.send(l).unwrap();
                            idx += 1;
                        }
                        Err(e) => {
                            let why = match e {
                                mpsc::RecvTimeoutError::Timeout => "hang",
                                mpsc::RecvTimeoutError::Disconnected => "crash",
                            };
                            let _ = child.kill();
                            let status = child.wait().ok().map(|s| format!("{s}")).unwrap_or_default();
                            let vec: J = serde_json::from_str(&chunk[idx]).unwrap_or(J::Null);
                            let text = vec.get("text").and_then(|t| t.as_str()).map(|s| s.to_string()).unwrap_or_else(|| enc::to_text(&vec["prog"]).unwrap_or_default());
                            let res = if vec["mode"] == "record" {
                                // a run that does not come back is recorded as such; the trace spec is not asked about it
                                json!({"id": vec["id"], "ok": true, "skipped": format!("worker {why} ({status})"), "crash": why, "text": text})
                            } else {
                                json!({"id": vec["id"], "ok": false, "crash": why, "why": format!("worker {why} ({status})"), "text": text, "vec": vec})
                            };
                            tx.send(res.to_string()).unwrap();
                            idx += 1;
                            died = true;
                            break;
                        }
                    }
                }
                drop(cin);
                if !died {
                    let _ = child.wait();
                }
                let _ = reader.join();
            }
        }));
    }
    drop(tx);
    let (mut n, mut bad) = (0, 0);
    for l in rx {
        n += 1;
        if l.contains("\"ok\":false") {
            bad += 1;
        }
        writeln!(out, "{l}").unwrap();
    }
    for h in handles {
        let _ = h.join();
    }
    (n, bad)
}

/// implementation -> specification: parse the text with jaq, run it, write one trace line
fn record_one(case: &J) -> J {
    use jaq_core::load::{parse, Lexer, Parser};
    let id = case["id"].clone();
    let printed;
    let text = match case.get("text").and_then(|t| t.as_str()) {
        Some(t) => t,
        None => match enc::to_text(&case["prog"]) {
            Ok(t) => {
                printed = t;
                &printed
            }
            Err(e) => return json!({"id": id, "ok": true, "skipped": format!("unprintable: {e}")}),
        },
    };
    let skip = |why: String| json!({"id": id, "ok": true, "skipped": why, "text": text});
    let tokens = match Lexer::new(text).lex() {
        Ok(t) => t,
        Err(_) => return skip("lex error".into()),
    };
    let term: parse::Term<&str> = match Parser::new(&tokens).parse(|p| p.term()) {
        Ok(t) => t,
        Err(_) => return skip("parse error".into()),
    };
    let prog = match enc::term_to_json(&term) {
        Ok(p) => p,
        Err(e) => return skip(format!("outside the encoding: {e}")),
    };
    let input = match case.get("input") {
        Some(j) if !j.is_null() => match enc::json_to_val(j) {
            Ok(v) => v,
            Err(e) => return skip(e),
        },
        _ => jaq_json::Val::Null,
    };
    let filter = match run::compile(text, &[]) {
        Ok(f) => f,
        Err(e) => return skip(format!("does not compile: {e}")),
    };
    let cap = case["cap"].as_u64().unwrap_or(64) as usize;
    let (items, ended, _counts) = run::run_items(&filter, Vec::new(), input.clone(), Vec::new(), cap);
    let mut o = Vec::new();
    let mut e = json!({"k": if ended { "ok" } else { "cap" }});
    for it in &items {
        match it {
            run::Item::Out(v) => o.push(v.clone()),
            run::Item::Err { v, user } => e = json!({"k": "err", "v": v, "user": user}),
            run::Item::Halt(c) => e = json!({"k": "halt", "c": c}),
            run::Item::Leak(s) => e = json!({"k": "leak", "s": s}),
        }
    }
    let mut line = json!({"id": id, "ok": true, "text": text, "prog": prog, "input": enc::val_to_json(&input),
                          "observed": {"o": o, "e": e}});
    // the manual's own expectation, read with jaq's XJON reader
    if let Some(rhs) = case.get("rhs").and_then(|r| r.as_str()) {
        let vals: Result<Vec<_>, _> = jaq_json::read::parse_many(rhs.as_bytes()).collect();
        if let Ok(vals) = vals {
            // a decimal literal of the manual that is an exact small float is that float
            let norm = |v: &jaq_json::Val| -> J {
                fn go(j: J) -> J {
                    match j["t"].as_str() {
                        Some("dec") => {
                            let s: String = j["ds"].as_array().unwrap().iter().map(|c| c.as_i64().unwrap() as u8 as char).collect();
                            match s.parse::<f64>() {
                                Ok(f) => enc::float_to_json(f),
                                Err(_) => j,
                            }
                        }
                        Some("arr") => json!({"t": "arr", "a": j["a"].as_array().unwrap().iter().cloned().map(go).collect::<Vec<_>>()}),
                        Some("obj") => json!({"t": "obj", "uo": false, "o": j["o"].as_array().unwrap().iter().map(|kv| J::Array(vec![go(kv[0].clone()), go(kv[1].clone())])).collect::<Vec<_>>()}),
                        _ => j,
                    }
                }
                go(enc::val_to_json(v))
            };
            line["manual"] = J::Array(vals.iter().map(norm).collect());
        }
    }
    line
}

pub fn read_lines(path: &str) -> Vec<String> {
    let f = std::fs::File::open(path).unwrap_or_else(|e| {
        eprintln!("cannot open {path}: {e}");
        std::process::exit(2)
    });
    BufReader::new(f).lines().map(|l| l.unwrap()).filter(|l| !l.trim().is_empty()).collect()
}

fn main() {
    let args: Vec<String> = std::env::args().collect();
    let cmd = args.get(1).map(|s| s.as_str()).unwrap_or("");
    match cmd {
        "worker" => worker(),
        "replay" | "record" => {
            let lines = read_lines(&args[2]);
            let lines = if cmd == "record" {
                lines
                    .into_iter()
                    .map(|l| {
                        let mut j: J = serde_json::from_str(&l).unwrap();
                        j["mode"] = "record".into();
                        j.to_string()
                    })
                    .collect()
            } else {
                lines
            };
            let jobs = args.get(4).and_then(|s| s.parse().ok()).unwrap_or(8);
            let mut out = std::io::BufWriter::new(std::fs::File::create(&args[3]).unwrap());
            let (n, bad) = farm(lines, jobs, &mut out);
            out.flush().unwrap();
            println!("{{\"processed\": {n}, \"bad\": {bad}}}");
        }
        "conc" => conc::main(&args),
        "sys" => sysdrv::main(&args),
        "text" => {
            for l in read_lines(&args[2]) {
                let j: J = serde_json::from_str(&l).unwrap();
                println!("{}", enc::to_text(&j["prog"]).unwrap_or_else(|e| format!("<{e}>")));
            }
        }
        _ => {
            eprintln!("usage: harness replay|record|text ...");
            std::process::exit(2);
        }
    }
}

fn main(){println!("hi");}

//! Interchange encoding (DESIGN 2.2): jaq values and syntax trees <-> tagged JSON,
//! and the harness' own printer from syntax trees to jq text.
//!
//! Nothing in here calls jaq's writer or parser except `term_to_json`, which walks the
//! public `parse::Term` enum produced by jaq's parser (implementation -> specification direction).

use jaq_core::load::lex::StrPart;
use jaq_core::load::parse::{BinaryOp, Pattern, Term};
use jaq_core::ops::{Cmp, Math};
use jaq_core::path::{Opt, Part};
use jaq_json::{Num, Val};
use serde_json::{json, Map, Value as J};

// ------------------------------------------------------------------ values

/// exact rational p/q of a finite float if q is a power of two <= 1024 and |p| < 10^6
fn small_dyadic(f: f64) -> Option<(i64, i64)> {
    if !f.is_finite() {
        return None;
    }
    let mut q = 1i64;
    let mut x = f;
    while q <= 1024 {
        if x.fract() == 0.0 {
            if x.abs() < 1e6 {
                return Some((x as i64, q));
            }
            return None;
        }
        x *= 2.0;
        q *= 2;
    }
    None
}

pub fn bytes_to_cps(b: &[u8]) -> Vec<i64> {
    // code points; an invalid byte b is the negative number -b (as `explode` defines)
    let mut out = Vec::new();
    let mut i = 0;
    while i < b.len() {
        let rest = &b[i..];
        let max = rest.len().min(4);
        let mut ok = None;
        for l in 1..=max {
            if let Ok(s) = std::str::from_utf8(&rest[..l]) {
                ok = Some((s.chars().next().unwrap(), l));
                break;
            }
        }
        match ok {
            Some((c, l)) => {
                out.push(c as i64);
                i += l;
            }
            None => {
                out.push(-(rest[0] as i64));
                i += 1;
            }
        }
    }
    out
}

pub fn cps_to_bytes(cps: &[i64]) -> Vec<u8> {
    let mut out = Vec::new();
    for &c in cps {
        if c < 0 {
            out.push((-c) as u8);
        } else if let Some(ch) = char::from_u32(c as u32) {
            let mut buf = [0u8; 4];
            out.extend_from_slice(ch.encode_utf8(&mut buf).as_bytes());
        } else {
            out.extend_from_slice("\u{fffd}".as_bytes());
        }
    }
    out
}

pub fn val_to_json(v: &Val) -> J {
    match v {
        Val::Null => json!({"t": "null"}),
        Val::Bool(b) => json!({"t": "bool", "b": b}),
        Val::Num(n) => num_to_json(n),
        Val::TStr(b) => json!({"t": "str", "c": bytes_to_cps(b)}),
        Val::BStr(b) => json!({"t": "bytes", "y": b.iter().map(|x| *x as i64).collect::<Vec<_>>()}),
        Val::Arr(a) => json!({"t": "arr", "a": a.iter().map(val_to_json).collect::<Vec<_>>()}),
        Val::Obj(o) => {
            let kvs: Vec<J> = o
                .iter()
                .map(|(k, v)| J::Array(vec![val_to_json(k), val_to_json(v)]))
                .collect();
            json!({"t": "obj", "o": kvs, "uo": false})
        }
    }
}

fn digits_of(s: &str) -> (bool, Vec<i64>) {
    let neg = s.starts_with('-');
    let d = s.trim_start_matches(['-', '+']);
    (neg, d.bytes().map(|b| (b - b'0') as i64).collect())
}

pub fn num_to_json(n: &Num) -> J {
    match n {
        Num::Int(i) => {
            if i.unsigned_abs() < (1usize << 31) {
                json!({"t": "int", "n": *i as i64})
            } else {
                let (neg, d) = digits_of(&i.to_string());
                json!({"t": "big", "neg": neg, "d": d})
            }
        }
        Num::BigInt(b) => {
            let s = b.to_string();
            let (neg, d) = digits_of(&s);
            // a big integer that fits: still "big" (representation is observable only via C08/C09)
            json!({"t": "big", "neg": neg, "d": d})
        }
        Num::Float(f) => float_to_json(*f),
        Num::Dec(s) => json!({"t": "dec", "ds": s.chars().map(|c| c as i64).collect::<Vec<_>>()}),
    }
}

pub fn float_to_json(f: f64) -> J {
    if f == 0.0 && f.is_sign_negative() {
        json!({"t": "nz"})
    } else if f.is_nan() {
        json!({"t": "fsp", "k": "nan"})
    } else if f == f64::INFINITY {
        json!({"t": "fsp", "k": "inf"})
    } else if f == f64::NEG_INFINITY {
        json!({"t": "fsp", "k": "ninf"})
    } else if let Some((p, q)) = small_dyadic(f) {
        json!({"t": "flt", "p": p, "q": q})
    } else {
        json!({"t": "fx", "fs": format!("{:e}", f)})
    }
}

fn big_from_digits(neg: bool, d: &[i64]) -> Val {
    let mut s = String::new();
    if neg {
        s.push('-');
    }
    if d.is_empty() {
        s.push('0');
    }
    for x in d {
        s.push((b'0' + *x as u8) as char);
    }
    // the "big" tag asks for the big-integer representation, also for values that fit a machine integer
    Val::Num(Num::big_int(s.parse::<num_bigint::BigInt>().expect("digits")))
}

pub fn json_to_val(j: &J) -> Result<Val, String> {
    let t = j["t"].as_str().ok_or("value without tag")?;
    Ok(match t {
        "null" => Val::Null,
        "bool" => Val::Bool(j["b"].as_bool().ok_or("bool")?),
        "int" => Val::Num(Num::Int(j["n"].as_i64().ok_or("int")? as isize)),
        "big" => {
            let d: Vec<i64> = j["d"].as_array().ok_or("big")?.iter().map(|x| x.as_i64().unwrap()).collect();
            big_from_digits(j["neg"].as_bool().unwrap_or(false), &d)
        }
        "nz" => Val::Num(Num::Float(-0.0)),
        "flt" => {
            let p = j["p"].as_i64().ok_or("flt")? as f64;
            let q = j["q"].as_i64().ok_or("flt")? as f64;
            Val::Num(Num::Float(p / q))
        }
        "fsp" => Val::Num(Num::Float(match j["k"].as_str().unwrap_or("") {
            "nan" => f64::NAN,
            "inf" => f64::INFINITY,
            _ => f64::NEG_INFINITY,
        })),
        "dec" => {
            let s: String = j["ds"].as_array().ok_or("dec")?.iter().map(|c| c.as_i64().unwrap() as u8 as char).collect();
            Val::Num(Num::Dec(s.into()))
        }
        "str" => {
            let c: Vec<i64> = j["c"].as_array().ok_or("str")?.iter().map(|x| x.as_i64().unwrap()).collect();
            Val::utf8_str(cps_to_bytes(&c))
        }
        "bytes" => {
            let y: Vec<u8> = j["y"].as_array().ok_or("bytes")?.iter().map(|x| x.as_i64().unwrap() as u8).collect();
            Val::byte_str(y)
        }
        "arr" => {
            let a: Result<Vec<Val>, String> = j["a"].as_array().ok_or("arr")?.iter().map(json_to_val).collect();
            a?.into_iter().collect()
        }
        "obj" => {
            let mut m = jaq_json::Map::default();
            for kv in j["o"].as_array().ok_or("obj")? {
                m.insert(json_to_val(&kv[0])?, json_to_val(&kv[1])?);
            }
            Val::obj(m)
        }
        other => return Err(format!("cannot build a value from tag {other}")),
    })
}

/// Does the real value `act` (already encoded) agree with the specification's `exp`?
/// `ierr` in the expectation matches any string (text of an internal message);
/// an object flagged `uo` (key order unspecified) is compared as a map.
pub fn agrees(exp: &J, act: &J) -> bool {
    let te = exp["t"].as_str().unwrap_or("");
    let ta = act["t"].as_str().unwrap_or("");
    match te {
        "ierr" => ta == "str",
        "oneof" => exp["alts"].as_array().map_or(false, |a| a.iter().any(|e| agrees(e, act))),
        "nz" => ta == "nz",
        "arr" => {
            ta == "arr" && {
                let (a, b) = (exp["a"].as_array().unwrap(), act["a"].as_array().unwrap());
                a.len() == b.len() && a.iter().zip(b).all(|(x, y)| agrees(x, y))
            }
        }
        "obj" => {
            ta == "obj" && {
                let (a, b) = (exp["o"].as_array().unwrap(), act["o"].as_array().unwrap());
                if a.len() != b.len() {
                    return false;
                }
                if exp["uo"].as_bool().unwrap_or(false) {
                    // same entries in any order
                    let mut used = vec![false; b.len()];
                    a.iter().all(|x| {
                        let hit = (0..b.len()).find(|&i| !used[i] && agrees(&x[0], &b[i][0]) && agrees(&x[1], &b[i][1]));
                        hit.map(|i| used[i] = true).is_some()
                    })
                } else {
                    a.iter().zip(b).all(|(x, y)| agrees(&x[0], &y[0]) && agrees(&x[1], &y[1]))
                }
            }
        }
        // a big integer that fits the small range is the same integer
        "int" => match ta {
            "int" => exp["n"] == act["n"],
            "big" => {
                let n = exp["n"].as_i64().unwrap();
                let (neg, d) = digits_of(&n.to_string());
                act["neg"].as_bool() == Some(neg) && act["d"] == json!(d)
            }
            _ => false,
        },
        "big" => match ta {
            "big" => {
                let strip = |d: &J| -> Vec<i64> {
                    let v: Vec<i64> = d.as_array().unwrap().iter().map(|x| x.as_i64().unwrap()).collect();
                    let k = v.iter().position(|x| *x != 0).unwrap_or(v.len().saturating_sub(1));
                    v[k..].to_vec()
                };
                let (de, da) = (strip(&exp["d"]), strip(&act["d"]));
                de == da && (exp["neg"] == act["neg"] || de == vec![0])
            }
            "int" => agrees(act, exp),
            _ => false,
        },
        "flt" => ta == "flt" && exp["p"] == act["p"] && exp["q"] == act["q"],
        "str" => ta == "str" && exp["c"] == act["c"],
        "bytes" => ta == "bytes" && exp["y"] == act["y"],
        "bool" => ta == "bool" && exp["b"] == act["b"],
        "null" => ta == "null",
        "fsp" => ta == "fsp" && exp["k"] == act["k"],
        "dec" => ta == "dec" && exp["ds"] == act["ds"],
        _ => false,
    }
}

// ------------------------------------------------------------------ terms -> JSON

pub type R<T> = Result<T, String>;

fn strip(x: &str) -> &str {
    x.strip_prefix('$').unwrap_or(x)
}

fn math_str(op: &Math) -> &'static str {
    match op {
        Math::Add => "+",
        Math::Sub => "-",
        Math::Mul => "*",
        Math::Div => "/",
        Math::Rem => "%",
    }
}

fn cmp_str(op: &Cmp) -> &'static str {
    match op {
        Cmp::Eq => "==",
        Cmp::Ne => "!=",
        Cmp::Lt => "<",
        Cmp::Le => "<=",
        Cmp::Gt => ">",
        Cmp::Ge => ">=",
    }
}

pub fn pat_to_json(p: &Pattern<&str>) -> R<J> {
    Ok(match p {
        Pattern::Var(x) => json!({"p": "var", "x": strip(x)}),
        Pattern::Arr(ps) => json!({"p": "arr", "ps": ps.iter().map(pat_to_json).collect::<R<Vec<_>>>()?}),
        Pattern::Obj(es) => {
            let es: R<Vec<J>> = es
                .iter()
                .map(|(k, p)| Ok(json!({"key": term_to_json(k)?, "pat": pat_to_json(p)?})))
                .collect();
            json!({"p": "obj", "es": es?})
        }
    })
}

fn str_parts(parts: &[StrPart<&str, Term<&str>>]) -> R<Vec<J>> {
    let mut out: Vec<J> = Vec::new();
    let mut cur: Vec<i64> = Vec::new();
    let mut any = false;
    for p in parts {
        match p {
            StrPart::Str(s) => {
                cur.extend(s.chars().map(|c| c as i64));
                any = true;
            }
            StrPart::Char(c) => {
                cur.push(*c as i64);
                any = true;
            }
            StrPart::Term(t) => {
                if any {
                    out.push(json!({"p": "s", "c": std::mem::take(&mut cur)}));
                    any = false;
                }
                out.push(json!({"p": "f", "f": term_to_json(t)?}));
            }
        }
    }
    if any {
        out.push(json!({"p": "s", "c": cur}));
    }
    Ok(out)
}

/// Normalised syntax tree of a parsed term.  Desugarings done here are exactly the ones the manual
/// states as "means": missing `else` = `else .`, `elif` chains, `{a}` = `{a: .a}`, `{$x}` = `{x: $x}`.
pub fn term_to_json(t: &Term<&str>) -> R<J> {
    Ok(match t {
        Term::Id => json!({"k": "id"}),
        Term::Recurse => json!({"k": "recurse"}),
        Term::Num(s) => match s.parse::<i64>() {
            Ok(n) if n.abs() < (1 << 31) => json!({"k": "num", "n": n}),
            _ if !s.is_empty() && s.bytes().all(|b| b.is_ascii_digit()) => {
                let d: Vec<i64> = s.trim_start_matches('0').bytes().map(|b| (b - b'0') as i64).collect();
                json!({"k": "bignum", "neg": false, "d": d})
            }
            _ => json!({"k": "numx", "s": s}),
        },
        Term::Str(fmt, parts) => {
            let mut o = Map::new();
            o.insert("k".into(), "str".into());
            if let Some(f) = fmt {
                o.insert("fmt".into(), (*f).into());
            }
            o.insert("parts".into(), J::Array(str_parts(parts)?));
            J::Object(o)
        }
        Term::Arr(None) => json!({"k": "arr"}),
        Term::Arr(Some(f)) => json!({"k": "arr", "f": term_to_json(f)?}),
        Term::Obj(es) => {
            let es: R<Vec<J>> = es
                .iter()
                .map(|(k, v)| {
                    Ok(match (k, v) {
                        (Term::Var(x), None) => {
                            let key = json!({"k": "str", "parts": [{"p": "s", "c": strip(x).chars().map(|c| c as i64).collect::<Vec<_>>()}]});
                            json!({"key": key, "val": {"k": "var", "x": strip(x)}})
                        }
                        (k, None) => {
                            let kj = term_to_json(k)?;
                            json!({"key": kj.clone(), "val": {"k": "path", "l": {"k": "id"}, "parts": [{"p": "idx", "i": kj, "opt": false}]}})
                        }
                        (k, Some(v)) => json!({"key": term_to_json(k)?, "val": term_to_json(v)?}),
                    })
                })
                .collect();
            json!({"k": "obj", "es": es?})
        }
        Term::Neg(f) => json!({"k": "neg", "f": term_to_json(f)?}),
        Term::BinOp(l, op, r) => {
            let (l, r) = (term_to_json(l)?, term_to_json(r)?);
            let o = match op {
                BinaryOp::Pipe(None) => "|".to_string(),
                BinaryOp::Pipe(Some(p)) => return Ok(json!({"k": "as", "l": l, "pat": pat_to_json(p)?, "r": r})),
                BinaryOp::Comma => ",".into(),
                BinaryOp::Alt => "//".into(),
                BinaryOp::Or => "or".into(),
                BinaryOp::And => "and".into(),
                BinaryOp::Math(m) => math_str(m).into(),
                BinaryOp::Cmp(c) => cmp_str(c).into(),
                BinaryOp::Assign => "=".into(),
                BinaryOp::Update => "|=".into(),
                BinaryOp::UpdateMath(m) => format!("{}=", math_str(m)),
                BinaryOp::UpdateAlt => "//=".into(),
            };
            json!({"k": "bin", "op": o, "l": l, "r": r})
        }
        Term::Label(x, f) => json!({"k": "label", "x": strip(x), "f": term_to_json(f)?}),
        Term::Break(x) => json!({"k": "break", "x": strip(x)}),
        Term::Fold(name, xs, pat, args) => {
            let mut o = Map::new();
            o.insert("k".into(), "fold".into());
            o.insert("name".into(), (*name).into());
            o.insert("xs".into(), term_to_json(xs)?);
            o.insert("pat".into(), pat_to_json(pat)?);
            let ok = (*name == "reduce" && args.len() == 2) || (*name == "foreach" && (args.len() == 2 || args.len() == 3));
            if !ok {
                return Err(format!("{name} with {} arguments", args.len()));
            }
            o.insert("init".into(), term_to_json(&args[0])?);
            o.insert("upd".into(), term_to_json(&args[1])?);
            if args.len() == 3 {
                o.insert("proj".into(), term_to_json(&args[2])?);
            }
            J::Object(o)
        }
        Term::TryCatch(f, None) => json!({"k": "try", "f": term_to_json(f)?, "c": {"k": "call", "f": "empty", "args": []}}),
        Term::TryCatch(f, Some(c)) => json!({"k": "try", "f": term_to_json(f)?, "c": term_to_json(c)?}),
        Term::IfThenElse(its, els) => {
            let mut acc = match els {
                Some(e) => term_to_json(e)?,
                None => json!({"k": "id"}),
            };
            for (c, t) in its.iter().rev() {
                acc = json!({"k": "if", "c": term_to_json(c)?, "t": term_to_json(t)?, "e": acc});
            }
            acc
        }
        Term::Def(defs, r) => {
            let ds: R<Vec<J>> = defs
                .iter()
                .map(|d| {
                    let params: Vec<J> = d.args.iter().map(|a| json!({"n": strip(a), "var": a.starts_with('$')})).collect();
                    Ok(json!({"name": d.name, "params": params, "body": term_to_json(&d.body)?}))
                })
                .collect();
            json!({"k": "def", "defs": ds?, "r": term_to_json(r)?})
        }
        Term::Call(name, args) => {
            json!({"k": "call", "f": name, "args": args.iter().map(term_to_json).collect::<R<Vec<_>>>()?})
        }
        Term::Var(x) => json!({"k": "var", "x": strip(x)}),
        Term::Path(l, path) => {
            let parts: R<Vec<J>> = path
                .0
                .iter()
                .map(|(part, opt)| {
                    let opt = matches!(opt, Opt::Optional);
                    Ok(match part {
                        Part::Index(i) => json!({"p": "idx", "i": term_to_json(i)?, "opt": opt}),
                        Part::Range(a, b) => {
                            let mut o = Map::new();
                            o.insert("p".into(), "rng".into());
                            o.insert("hi".into(), a.is_some().into());
                            o.insert("hj".into(), b.is_some().into());
                            if let Some(a) = a {
                                o.insert("i".into(), term_to_json(a)?);
                            }
                            if let Some(b) = b {
                                o.insert("j".into(), term_to_json(b)?);
                            }
                            o.insert("opt".into(), opt.into());
                            J::Object(o)
                        }
                    })
                })
                .collect();
            json!({"k": "path", "l": term_to_json(l)?, "parts": parts?})
        }
    })
}

// ------------------------------------------------------------------ JSON -> jq text

fn esc_str(cps: &[J], out: &mut String) -> R<()> {
    for c in cps {
        let c = c.as_i64().ok_or("code point")?;
        if c < 0 {
            return Err("invalid byte in a string literal".into());
        }
        match c {
            34 => out.push_str("\\\""),
            92 => out.push_str("\\\\"),
            0..=31 | 127 => out.push_str(&format!("\\u{:04x}", c)),
            _ => out.push(char::from_u32(c as u32).ok_or("surrogate")?),
        }
    }
    Ok(())
}

fn print_pat(p: &J, out: &mut String) -> R<()> {
    match p["p"].as_str().ok_or("pattern")? {
        "var" => {
            out.push('$');
            out.push_str(p["x"].as_str().ok_or("x")?);
        }
        "arr" => {
            out.push('[');
            for (i, q) in p["ps"].as_array().ok_or("ps")?.iter().enumerate() {
                if i > 0 {
                    out.push_str(", ");
                }
                print_pat(q, out)?;
            }
            out.push(']');
        }
        "obj" => {
            out.push('{');
            for (i, e) in p["es"].as_array().ok_or("es")?.iter().enumerate() {
                if i > 0 {
                    out.push_str(", ");
                }
                out.push('(');
                print(&e["key"], out)?;
                out.push_str("): ");
                print_pat(&e["pat"], out)?;
            }
            out.push('}');
        }
        x => return Err(format!("pattern kind {x}")),
    }
    Ok(())
}

fn paren(t: &J, out: &mut String) -> R<()> {
    // atoms that need no parentheses keep the text readable
    let k = t["k"].as_str().unwrap_or("");
    let atom = matches!(k, "id" | "recurse" | "var" | "arr" | "obj" | "str" | "bignum")
        || (k == "num" && t["n"].as_i64().unwrap_or(-1) >= 0)
        || (k == "call" && !t["f"].as_str().unwrap_or("").starts_with('@'));
    if atom {
        print(t, out)
    } else {
        out.push('(');
        print(t, out)?;
        out.push(')');
        Ok(())
    }
}

/// The harness' own printer: every compound sub-term is parenthesised, so the text does not depend
/// on operator precedence (C15 is the property that checks precedence).
pub fn print(t: &J, out: &mut String) -> R<()> {
    let k = t["k"].as_str().ok_or_else(|| format!("term without kind: {t}"))?;
    match k {
        "id" => out.push('.'),
        "recurse" => out.push_str(".."),
        "num" => {
            let n = t["n"].as_i64().ok_or("n")?;
            if n < 0 {
                out.push_str(&format!("-{}", -n));
            } else {
                out.push_str(&n.to_string());
            }
        }
        "numx" => out.push_str(t["s"].as_str().ok_or("s")?),
        "bignum" => {
            let d = t["d"].as_array().ok_or("d")?;
            let mut txt: String = if d.is_empty() { "0".into() } else { d.iter().map(|x| (b'0' + x.as_i64().unwrap_or(0) as u8) as char).collect() };
            // optional fraction digits: a decimal literal
            if let Some(fr) = t.get("fr").and_then(|f| f.as_array()) {
                txt.push('.');
                txt.extend(fr.iter().map(|x| (b'0' + x.as_i64().unwrap_or(0) as u8) as char));
            }
            if t["neg"].as_bool().unwrap_or(false) {
                out.push_str(&format!("(-{txt})"));
            } else {
                out.push_str(&txt);
            }
        }
        "str" => {
            if let Some(f) = t.get("fmt").and_then(|f| f.as_str()) {
                out.push_str(f);
                out.push(' ');
            }
            out.push('"');
            for p in t["parts"].as_array().ok_or("parts")? {
                if p["p"] == "s" {
                    esc_str(p["c"].as_array().ok_or("c")?, out)?;
                } else {
                    out.push_str("\\(");
                    print(&p["f"], out)?;
                    out.push(')');
                }
            }
            out.push('"');
        }
        "arr" => {
            out.push('[');
            if let Some(f) = t.get("f") {
                print(f, out)?;
            }
            out.push(']');
        }
        "obj" => {
            out.push('{');
            for (i, e) in t["es"].as_array().ok_or("es")?.iter().enumerate() {
                if i > 0 {
                    out.push_str(", ");
                }
                out.push('(');
                print(&e["key"], out)?;
                out.push_str("): ");
                paren(&e["val"], out)?;
            }
            out.push('}');
        }
        "neg" => {
            out.push('-');
            paren(&t["f"], out)?;
        }
        "bin" => {
            paren(&t["l"], out)?;
            out.push(' ');
            out.push_str(t["op"].as_str().ok_or("op")?);
            out.push(' ');
            paren(&t["r"], out)?;
        }
        "as" => {
            paren(&t["l"], out)?;
            out.push_str(" as ");
            print_pat(&t["pat"], out)?;
            out.push_str(" | ");
            paren(&t["r"], out)?;
        }
        "label" => {
            out.push_str("label $");
            out.push_str(t["x"].as_str().ok_or("x")?);
            out.push_str(" | ");
            paren(&t["f"], out)?;
        }
        "break" => {
            out.push_str("break $");
            out.push_str(t["x"].as_str().ok_or("x")?);
        }
        "fold" => {
            out.push_str(t["name"].as_str().ok_or("name")?);
            out.push(' ');
            paren(&t["xs"], out)?;
            out.push_str(" as ");
            print_pat(&t["pat"], out)?;
            out.push_str(" (");
            paren(&t["init"], out)?;
            out.push_str("; ");
            paren(&t["upd"], out)?;
            if let Some(p) = t.get("proj") {
                out.push_str("; ");
                paren(p, out)?;
            }
            out.push(')');
        }
        "try" => {
            out.push_str("try ");
            paren(&t["f"], out)?;
            if let Some(c) = t.get("c") {
                out.push_str(" catch ");
                paren(c, out)?;
            }
        }
        "if" => {
            out.push_str("if ");
            paren(&t["c"], out)?;
            out.push_str(" then ");
            paren(&t["t"], out)?;
            out.push_str(" else ");
            paren(&t["e"], out)?;
            out.push_str(" end");
        }
        "def" => {
            for d in t["defs"].as_array().ok_or("defs")? {
                out.push_str("def ");
                out.push_str(d["name"].as_str().ok_or("name")?);
                let ps = d["params"].as_array().ok_or("params")?;
                if !ps.is_empty() {
                    out.push('(');
                    for (i, p) in ps.iter().enumerate() {
                        if i > 0 {
                            out.push_str("; ");
                        }
                        if p["var"].as_bool().unwrap_or(false) {
                            out.push('$');
                        }
                        out.push_str(p["n"].as_str().ok_or("n")?);
                    }
                    out.push(')');
                }
                out.push_str(": ");
                paren(&d["body"], out)?;
                out.push_str("; ");
            }
            paren(&t["r"], out)?;
        }
        "call" => {
            out.push_str(t["f"].as_str().ok_or("f")?);
            let args = t["args"].as_array().ok_or("args")?;
            if !args.is_empty() {
                out.push('(');
                for (i, a) in args.iter().enumerate() {
                    if i > 0 {
                        out.push_str("; ");
                    }
                    paren(a, out)?;
                }
                out.push(')');
            }
        }
        "var" => {
            out.push('$');
            out.push_str(t["x"].as_str().ok_or("x")?);
        }
        "path" => {
            let l = &t["l"];
            if l["k"] == "id" {
                out.push('.');
            } else {
                paren(l, out)?;
            }
            for p in t["parts"].as_array().ok_or("parts")? {
                out.push('[');
                if p["p"] == "idx" {
                    paren(&p["i"], out)?;
                } else {
                    if p["hi"].as_bool().unwrap_or(false) {
                        paren(&p["i"], out)?;
                    }
                    if p["hi"].as_bool().unwrap_or(false) || p["hj"].as_bool().unwrap_or(false) {
                        out.push(':');
                    }
                    if p["hj"].as_bool().unwrap_or(false) {
                        paren(&p["j"], out)?;
                    }
                }
                out.push(']');
                if p["opt"].as_bool().unwrap_or(false) {
                    out.push('?');
                }
            }
        }
        x => return Err(format!("cannot print term kind {x}")),
    }
    Ok(())
}

pub fn to_text(t: &J) -> R<String> {
    let mut s = String::new();
    print(t, &mut s)?;
    Ok(s)
}

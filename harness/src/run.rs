//! Driving the real library: load -> compile -> run item by item, classification of what comes out.

use crate::enc;
use jaq_all::data::{Ctx, Data, Filter, Runner};
use jaq_core::{Exn, Vars};
use jaq_json::Val;
use jaq_std::input::RcIter;
use serde_json::{json, Value as J};
use std::cell::Cell;
use std::rc::Rc;

pub fn compile(code: &str, vars: &[String]) -> Result<Filter, String> {
    jaq_all::compile_with(code, jaq_all::defs(), jaq_all::data::funs(), vars).map_err(|errs| {
        format!("{} file(s) with load/compile errors", errs.len())
    })
}

/// Compile; a rejected filter must come with diagnostics that render (every span inside the text).
pub fn compile_diag(code: &str) -> Result<Filter, String> {
    jaq_all::compile_with(code, jaq_all::defs(), jaq_all::data::funs(), &[]).map_err(|errs| {
        let mut out = String::new();
        for e in &errs {
            out.push_str(&format!("{}", jaq_all::load::FileReportsDisp::new(e)));
        }
        out
    })
}

/// One observed item of a run.
#[derive(Debug, Clone)]
pub enum Item {
    Out(J),
    /// error with payload; `user` = raised by `error` with a value
    Err { v: J, user: bool },
    Halt(i32),
    /// an internal control-flow exception escaped (break / tail call)
    Leak(String),
}

impl Item {
    pub fn to_json(&self) -> J {
        match self {
            Item::Out(v) => json!({"i": "out", "v": v}),
            Item::Err { v, user } => json!({"i": "err", "v": v, "user": user}),
            Item::Halt(c) => json!({"i": "halt", "c": c}),
            Item::Leak(s) => json!({"i": "leak", "s": s}),
        }
    }
}

pub fn classify(r: Result<Val, Exn<'_, Val>>) -> Item {
    match r {
        Ok(v) => Item::Out(enc::val_to_json(&v)),
        Err(exn) => match exn.get_err() {
            Ok(e) => {
                let dbg = format!("{:?}", e);
                let user = dbg.starts_with("Error(Val(");
                Item::Err { v: enc::val_to_json(&e.into_val()), user }
            }
            Err(exn) => match exn.get_halt() {
                Ok(c) => Item::Halt(c),
                Err(exn) => Item::Leak(format!("{:?}", exn).chars().take(80).collect()),
            },
        },
    }
}

/// Run `filter` on `input`, pulling at most `max` items; `inputs` feeds `input`/`inputs`.
/// Returns the items, whether the stream ended within `max` pulls, and how many inputs were pulled
/// after each item.
pub fn run_items(
    filter: &Filter,
    vars: Vec<Val>,
    input: Val,
    inputs: Vec<Result<Val, String>>,
    max: usize,
) -> (Vec<Item>, bool, Vec<usize>) {
    let pulled = Rc::new(Cell::new(0usize));
    let p2 = pulled.clone();
    let it = inputs.into_iter().inspect(move |_| p2.set(p2.get() + 1));
    let boxed: Box<dyn Iterator<Item = Result<Val, String>>> = Box::new(it);
    let rc = RcIter::new(boxed);
    let runner = Runner::default();
    let data = Data { runner: &runner, lut: &filter.lut, inputs: &rc };
    let ctx = Ctx::new(&data, Vars::new(vars));
    let mut iter = filter.id.run((ctx, input));
    let mut items = Vec::new();
    let mut counts = Vec::new();
    let mut ended = false;
    for _ in 0..max {
        match iter.next() {
            None => {
                ended = true;
                break;
            }
            Some(r) => {
                let it = classify(r);
                let stop = !matches!(it, Item::Out(_));
                items.push(it);
                counts.push(pulled.get());
                if stop {
                    break;
                }
            }
        }
    }
    counts.push(pulled.get());
    (items, ended, counts)
}

/// Compare a real run with the specification's expected stream.
///   expect = {"o": [values], "e": {"k": "ok"|"err"|"halt"|"div"|"unk"|"unsup"|"brk", ...}}
/// Only as many items are pulled as the expectation defines (plus one for a definite end).
pub fn check_vector(vec: &J) -> J {
    let id = vec["id"].clone();
    let fail = |why: String, text: &str, observed: J| json!({"id": id, "ok": false, "why": why, "text": text, "observed": observed, "vec": vec});
    let text = match enc::to_text(&vec["prog"]) {
        Ok(t) => t,
        Err(e) => return json!({"id": id, "ok": true, "skipped": format!("unprintable: {e}")}),
    };
    let var_names: Vec<String> = vec["vars"].as_array().map(|a| a.iter().map(|kv| kv[0].as_str().unwrap().to_string()).collect()).unwrap_or_default();
    let mut var_vals = Vec::new();
    if let Some(a) = vec["vars"].as_array() {
        for kv in a {
            match enc::json_to_val(&kv[1]) {
                Ok(v) => var_vals.push(v),
                Err(e) => return json!({"id": id, "ok": true, "skipped": e}),
            }
        }
    }
    let input = match enc::json_to_val(&vec["input"]) {
        Ok(v) => v,
        Err(e) => return json!({"id": id, "ok": true, "skipped": e}),
    };
    let inputs: Vec<Result<Val, String>> = match vec.get("inputs").and_then(|x| x.as_array()) {
        Some(a) => a.iter().map(|j| enc::json_to_val(j)).collect(),
        None => Vec::new(),
    };
    let filter = match compile(&text, &var_names) {
        Ok(f) => f,
        Err(e) => return fail(format!("does not compile: {e}"), &text, J::Null),
    };
    let exp_o = vec["expect"]["o"].as_array().cloned().unwrap_or_default();
    let ek = vec["expect"]["e"]["k"].as_str().unwrap_or("unk").to_string();
    let definite = matches!(ek.as_str(), "ok" | "err" | "halt");
    if !definite && exp_o.is_empty() {
        // nothing is specified about this run (the specification ran out of fuel or the manual is
        // silent before the first output); building the iterator may already diverge
        return json!({"id": id, "ok": true, "definite": false, "n": 0, "indefinite": true});
    }
    let max = exp_o.len() + if definite { 1 } else { 0 };
    let (items, ended, counts) = run_items(&filter, var_vals, input, inputs, max);
    let obs = J::Array(items.iter().map(|i| i.to_json()).collect());
    for (i, e) in exp_o.iter().enumerate() {
        match items.get(i) {
            Some(Item::Out(v)) if enc::agrees(e, v) => (),
            Some(other) => return fail(format!("item {i}: expected {e}, got {}", other.to_json()), &text, obs),
            None => return fail(format!("item {i}: expected {e}, stream ended"), &text, obs),
        }
    }
    let n = exp_o.len();
    match ek.as_str() {
        "ok" => {
            if !(ended && items.len() == n) {
                return fail(format!("expected end of stream after {n} items, got {:?}", items.get(n).map(|i| i.to_json())), &text, obs);
            }
        }
        "err" => match items.get(n) {
            Some(Item::Err { v, user }) => {
                let ev = &vec["expect"]["e"]["v"];
                let internal = ev["t"] == "ierr";
                if internal {
                    // the text of an internal message is not specified; it may have been caught and re-raised
                    let _ = user;
                    if v["t"] != "str" {
                        return fail(format!("expected an internal error (a message), got error {v}"), &text, obs);
                    }
                } else if !enc::agrees(ev, v) {
                    return fail(format!("expected error {ev}, got error {v}"), &text, obs);
                }
            }
            other => return fail(format!("expected error after {n} items, got {:?}", other.map(|i| i.to_json())), &text, obs),
        },
        "halt" => match items.get(n) {
            Some(Item::Halt(c)) if Some(*c as i64) == vec["expect"]["e"]["c"].as_i64() => (),
            other => return fail(format!("expected halt, got {:?}", other.map(|i| i.to_json())), &text, obs),
        },
        _ => (),
    }
    // consumed inputs (C03 / C17): expect.pulled[i] = number of inputs consumed when item i is delivered
    if let Some(p) = vec["expect"].get("pulled").and_then(|p| p.as_array()) {
        for (i, e) in p.iter().enumerate() {
            if let (Some(e), Some(a)) = (e.as_i64(), counts.get(i)) {
                if e >= 0 && e as usize != *a {
                    return fail(format!("after item {i}: expected {e} inputs consumed, got {a}"), &text, json!({"items": obs, "pulled": counts}));
                }
            }
        }
    }
    json!({"id": id, "ok": true, "definite": definite, "n": n})
}


/// C15: join a token sequence with trivia, parse it with jaq's parser, compare the tree.
/// The trivia variants exercise whitespace, newlines, comments and their backslash continuation rule.
pub fn check_parse(vec: &J) -> J {
    use jaq_core::load::{parse, Lexer, Parser};
    let id = vec["id"].clone();
    let toks: Vec<&str> = vec["tokens"].as_array().map(|a| a.iter().filter_map(|t| t.as_str()).collect()).unwrap_or_default();
    let expect_reject = vec["reject"].as_bool().unwrap_or(false);
    let variants: [&dyn Fn(usize) -> String; 6] = [
        &|_| " ".into(),
        &|_| "\n".into(),
        &|i| if i % 3 == 0 { " # comment | , ) \n ".into() } else { " ".into() },
        // an odd number of backslashes continues the comment on the next line, an even number does not
        &|i| if i % 2 == 0 { " # c \\\n still ( comment \n".into() } else { "\t".into() },
        &|i| if i % 2 == 1 { " # c \\\\\n ".into() } else { "  ".into() },
        &|i| if i % 4 == 1 { "\r\n# c \\\r\n also comment\r\n".into() } else { " ".into() },
    ];
    for (vi, tr) in variants.iter().enumerate() {
        let mut text = String::new();
        for (i, t) in toks.iter().enumerate() {
            if i > 0 {
                text.push_str(&tr(i));
            }
            text.push_str(t);
        }
        let parsed: Option<J> = Lexer::new(&text).lex().ok().and_then(|tokens| {
            let t: Result<parse::Term<&str>, _> = Parser::new(&tokens).parse(|p| p.term());
            t.ok().and_then(|t| enc::term_to_json(&t).ok())
        });
        match (parsed, expect_reject) {
            (None, true) => (),
            (Some(t), true) => return json!({"id": id, "ok": false, "why": format!("should be rejected but parses as {t}"), "text": text, "vec": vec}),
            (None, false) => return json!({"id": id, "ok": false, "why": format!("does not parse (trivia variant {vi})"), "text": text, "vec": vec}),
            (Some(t), false) => {
                if t != vec["tree"] {
                    return json!({"id": id, "ok": false, "why": format!("trivia variant {vi}: parsed as {t}"), "text": text, "vec": vec});
                }
            }
        }
    }
    json!({"id": id, "ok": true, "definite": true, "n": 1})
}


/// C15: a text that is not a program of the documented grammar must be rejected when it is loaded/compiled.
pub fn check_reject(vec: &J) -> J {
    let id = vec["id"].clone();
    let text = vec["text"].as_str().unwrap_or("");
    match compile(text, &[]) {
        Err(_) => json!({"id": id, "ok": true, "definite": true, "n": 1}),
        Ok(_) => json!({"id": id, "ok": false, "why": "an ill-formed program was accepted", "text": text, "vec": vec}),
    }
}


/// C04: run a program over `$n` (a) at n = 3, comparing with the specified stream, (b) at n = N and 2N in a thread
/// with a small fixed stack, counting outputs and measuring the peak of live heap bytes above the level at the start.
/// A stack overflow kills this worker process: the farm reports the crash for this vector.
pub fn measure_tail(vec: &J) -> J {
    let id = vec["id"].clone();
    let text = match enc::to_text(&vec["prog"]) {
        Ok(t) => t,
        Err(e) => return json!({"id": id, "ok": false, "why": format!("unprintable: {e}")}),
    };
    let fail = |why: String| json!({"id": id, "ok": false, "why": why, "text": text, "vec": vec});
    // (a) small n against the specification
    let small = json!({"id": id, "prog": vec["prog"], "vars": [["n", {"t": "int", "n": 3}]], "input": {"t": "null"}, "expect": vec["expect"]});
    let r = check_vector(&small);
    if r["ok"] != true {
        return fail(format!("at $n = 3: {}", r["why"].as_str().unwrap_or("?")));
    }
    let stack = vec["stack"].as_u64().unwrap_or(2 << 20) as usize;
    let n1 = vec["n"].as_u64().unwrap_or(100000) as isize;
    let mut ms = Vec::new();
    for n in [n1, 2 * n1] {
        let text2 = text.clone();
        let h = std::thread::Builder::new().stack_size(stack).spawn(move || -> Result<(usize, usize, String), String> {
            let filter = compile(&text2, &["n".to_string()])?;
            let base = crate::alloc_count::reset();
            let mut count = 0usize;
            let mut last = String::new();
            {
                let boxed: Box<dyn Iterator<Item = Result<Val, String>>> = Box::new(core::iter::empty());
                let rc = RcIter::new(boxed);
                let runner = Runner::default();
                let data = Data { runner: &runner, lut: &filter.lut, inputs: &rc };
                let ctx = Ctx::new(&data, Vars::new(vec![Val::from(n)]));
                for r in filter.id.run((ctx, Val::Null)) {
                    match classify(r) {
                        Item::Out(v) => {
                            count += 1;
                            last = v.to_string();
                        }
                        other => return Err(format!("{}", other.to_json())),
                    }
                }
            }
            Ok((count, crate::alloc_count::peak().saturating_sub(base), last))
        });
        let h = match h {
            Ok(h) => h,
            Err(e) => return fail(format!("cannot spawn: {e}")),
        };
        match h.join() {
            Ok(Ok((count, peak, last))) => ms.push(json!({"n": n, "outputs": count, "peak": peak, "last": last})),
            Ok(Err(e)) => return fail(format!("at $n = {n}: {e}")),
            Err(_) => return fail(format!("at $n = {n}: panic")),
        }
    }
    json!({"id": id, "ok": true, "text": text, "m": ms})
}

//! C19 driver: the same compiled filters run alone (each in a fresh process), one after the other in one
//! process, and concurrently from several threads that share the compiled filters.
//!
//!   conc one   <jobs.ndjson> <index>                     (internal) run one job, print its outputs as JSON
//!   conc alone <jobs.ndjson> <out.ndjson>                every job in a fresh process
//!   conc seq   <jobs.ndjson> <out.ndjson> <seed>         one process, one thread, shuffled order
//!   conc pairs <jobs.ndjson> <out.ndjson>                every ordered pair of jobs, back to back, on one thread
//!   conc par   <jobs.ndjson> <out.ndjson> <T> <R> <seed> T threads x R rounds over all jobs, shuffled per thread,
//!                                                        released together; the filters are compiled once and shared
//! Output lines: {"t": thread, "seq": n, "job": id, "out": [strings]}

use crate::run::{classify, compile, Item};
use jaq_all::data::{Ctx, Data, Filter, Runner};
use jaq_core::Vars;
use jaq_json::Val;
use jaq_std::input::RcIter;
use rand::seq::SliceRandom;
use rand::SeedableRng;
use serde_json::{json, Value as J};
use std::io::Write;

/// the static part of the property: a compiled filter is shared data
fn assert_send_sync<T: Send + Sync>() {}
#[allow(dead_code)]
fn static_part() {
    assert_send_sync::<Filter>();
}

const CAP: usize = 64;

fn exec(filter: &Filter) -> Vec<String> {
    let boxed: Box<dyn Iterator<Item = Result<Val, String>>> = Box::new(core::iter::empty());
    let rc = RcIter::new(boxed);
    let runner = Runner::default();
    let data = Data { runner: &runner, lut: &filter.lut, inputs: &rc };
    let ctx = Ctx::new(&data, Vars::new(Vec::new()));
    let mut out = Vec::new();
    for r in filter.id.run((ctx, Val::Null)).take(CAP) {
        match classify(r) {
            Item::Out(v) => out.push(v.to_string()),
            other => {
                out.push(other.to_json().to_string());
                break;
            }
        }
    }
    out
}

fn jobs(path: &str) -> Vec<(String, String)> {
    crate::read_lines(path)
        .iter()
        .map(|l| {
            let j: J = serde_json::from_str(l).unwrap();
            (j["id"].as_str().unwrap().to_string(), j["text"].as_str().unwrap().to_string())
        })
        .collect()
}

pub fn main(args: &[String]) {
    let mode = args[2].as_str();
    let js = jobs(&args[3]);
    std::panic::set_hook(Box::new(|_| {}));
    match mode {
        "one" => {
            let i: usize = args[4].parse().unwrap();
            let out = match compile(&js[i].1, &[]) {
                Ok(f) => std::panic::catch_unwind(|| exec(&f)).unwrap_or_else(|_| vec!["<panic>".into()]),
                Err(_) => vec!["<does not compile>".to_string()],
            };
            println!("{}", json!({"job": js[i].0, "out": out}));
        }
        "alone" => {
            let exe = std::env::current_exe().unwrap();
            let mut w = std::io::BufWriter::new(std::fs::File::create(&args[4]).unwrap());
            let n = js.len();
            let idx = std::sync::atomic::AtomicUsize::new(0);
            let results = std::sync::Mutex::new(vec![String::new(); n]);
            std::thread::scope(|s| {
                for _ in 0..12 {
                    s.spawn(|| loop {
                        let i = idx.fetch_add(1, std::sync::atomic::Ordering::Relaxed);
                        if i >= n {
                            break;
                        }
                        let o = std::process::Command::new(&exe).args(["conc", "one", &args[3], &i.to_string()]).output().unwrap();
                        let line = String::from_utf8_lossy(&o.stdout).trim().to_string();
                        let line = if line.is_empty() { json!({"job": js[i].0, "out": [format!("<crash {}>", o.status)]}).to_string() } else { line };
                        results.lock().unwrap()[i] = line;
                    });
                }
            });
            for l in results.into_inner().unwrap() {
                writeln!(w, "{l}").unwrap();
            }
        }
        "pairs" => {
            // history: every ordered pair of jobs, one directly after the other, on one thread
            let filters: Vec<(String, Option<Filter>)> = js.iter().map(|(id, text)| (id.clone(), compile(text, &[]).ok())).collect();
            let mut w = std::io::BufWriter::new(std::fs::File::create(&args[4]).unwrap());
            let run1 = |i: usize| match &filters[i].1 {
                Some(f) => std::panic::catch_unwind(std::panic::AssertUnwindSafe(|| exec(f))).unwrap_or_else(|_| vec!["<panic>".into()]),
                None => vec!["<does not compile>".to_string()],
            };
            let mut seq = 0usize;
            for i in 0..filters.len() {
                for j in 0..filters.len() {
                    for k in [i, j] {
                        seq += 1;
                        writeln!(w, "{}", json!({"t": 1, "seq": seq, "job": filters[k].0, "out": run1(k), "after": filters[i].0})).unwrap();
                    }
                }
            }
        }
        "seq" | "par" => {
            let (t, r, seed): (usize, usize, u64) = if mode == "seq" {
                (1, 1, args[5].parse().unwrap())
            } else {
                (args[5].parse().unwrap(), args[6].parse().unwrap(), args[7].parse().unwrap())
            };
            // compiled once, shared by reference between all threads
            let filters: Vec<(String, Option<Filter>)> = js.iter().map(|(id, text)| (id.clone(), compile(text, &[]).ok())).collect();
            let barrier = std::sync::Barrier::new(t);
            let logs: Vec<Vec<String>> = std::thread::scope(|s| {
                let hs: Vec<_> = (0..t)
                    .map(|ti| {
                        let (filters, barrier) = (&filters, &barrier);
                        s.spawn(move || {
                            let mut rng = rand::rngs::StdRng::seed_from_u64(seed.wrapping_mul(1000).wrapping_add(ti as u64));
                            let mut log = Vec::new();
                            let mut seq = 0usize;
                            barrier.wait();
                            for _ in 0..r {
                                let mut order: Vec<usize> = (0..filters.len()).collect();
                                order.shuffle(&mut rng);
                                for i in order {
                                    let out = match &filters[i].1 {
                                        Some(f) => std::panic::catch_unwind(std::panic::AssertUnwindSafe(|| exec(f))).unwrap_or_else(|_| vec!["<panic>".into()]),
                                        None => vec!["<does not compile>".to_string()],
                                    };
                                    seq += 1;
                                    log.push(json!({"t": ti + 1, "seq": seq, "job": filters[i].0, "out": out}).to_string());
                                }
                            }
                            log
                        })
                    })
                    .collect();
                hs.into_iter().map(|h| h.join().unwrap()).collect()
            });
            let mut w = std::io::BufWriter::new(std::fs::File::create(&args[4]).unwrap());
            for log in logs {
                for l in log {
                    writeln!(w, "{l}").unwrap();
                }
            }
        }
        _ => {
            eprintln!("usage: harness conc one|alone|seq|par ...");
            std::process::exit(2);
        }
    }
}

//! C06 / C05 driver: run many filters in one process with syscall-visible markers, so that a system-call log
//! (strace) can be cut into a load phase and one execution segment per case.
//!
//!   sys names                                  print every native filter and definition of the current tree as name/arity
//!   sys run <cases.ndjson> <out.ndjson> <from> compile all cases (load phase), stat "/jaq-verif-marker/exec", then for every
//!                                              case from index <from>: stat "/jaq-verif-marker/case/<index>", run it
//! A case: {"id", "text", "vars": [["h", value]], "input": value}.  Output: {"id", "items": n, "end": "..."} per case.
//! A panic is data (reported in "end"); a hang is cut by the caller (the last case marker tells which case).

use crate::enc;
use crate::run::{classify, compile, Item};
use jaq_all::data::{Ctx, Data, Runner};
use jaq_core::Vars;
use jaq_json::Val;
use jaq_std::input::RcIter;
use serde_json::{json, Value as J};
use std::io::Write;

fn marker(s: &str) {
    let _ = std::fs::metadata(format!("/jaq-verif-marker/{s}"));
}

pub fn main(args: &[String]) {
    match args[2].as_str() {
        "names" => {
            let mut names: Vec<(String, usize)> = jaq_all::data::funs().map(|f| (f.0.to_string(), f.1.len())).collect();
            names.extend(jaq_all::defs().map(|d| (d.name.to_string(), d.args.len())));
            names.sort();
            names.dedup();
            for (n, a) in names {
                println!("{n}/{a}");
            }
        }
        "run" => {
            let cases: Vec<J> = crate::read_lines(&args[3]).iter().map(|l| serde_json::from_str(l).unwrap()).collect();
            let from: usize = args[5].parse().unwrap();
            let mut w = std::fs::OpenOptions::new().create(true).append(true).open(&args[4]).unwrap();
            std::panic::set_hook(Box::new(|_| {}));
            // load phase: everything is compiled before anything runs
            // with a 7th argument "lazy" every case is compiled right before it runs (no load phase; for the totality check)
            let lazy = args.get(6).map(|s| s == "lazy").unwrap_or(false);
            let compile_case = |c: &J| {
                let vars: Vec<String> = c["vars"].as_array().map(|a| a.iter().map(|v| v[0].as_str().unwrap().to_string()).collect()).unwrap_or_default();
                std::panic::catch_unwind(|| compile(c["text"].as_str().unwrap(), &vars)).unwrap_or_else(|_| Err("panic in compile".into()))
            };
            let compiled: Vec<_> = cases
                .iter()
                .enumerate()
                .map(|(i, c)| {
                    if c["mode"] == "diag" {
                        return Err("diag".to_string());
                    }
                    if lazy && i >= from {
                        return Err("lazy".to_string());
                    }
                    if i < from {
                        return Err("skipped".to_string());
                    }
                    let vars: Vec<String> = c["vars"].as_array().map(|a| a.iter().map(|v| v[0].as_str().unwrap().to_string()).collect()).unwrap_or_default();
                    std::panic::catch_unwind(|| compile(c["text"].as_str().unwrap(), &vars)).unwrap_or_else(|_| Err("panic in compile".into()))
                })
                .collect();
            marker("exec");
            for (i, c) in cases.iter().enumerate().skip(from) {
                marker(&format!("case/{i}"));
                let now = if matches!(&compiled[i], Err(e) if e == "lazy") { Some(compile_case(c)) } else { None };
                let res = match now.as_ref().unwrap_or(&compiled[i]) {
                    Err(e) if e == "diag" => {
                        // filter text: accepted, or rejected with diagnostics that render
                        let text = c["text"].as_str().unwrap().to_string();
                        match std::panic::catch_unwind(move || crate::run::compile_diag(&text).map(|_| ())) {
                            Ok(Ok(())) => json!({"id": c["id"], "items": 0, "end": "accepted"}),
                            Ok(Err(d)) if d.trim().is_empty() => json!({"id": c["id"], "items": 0, "end": "panic", "panic": "rejected without diagnostics"}),
                            Ok(Err(d)) => json!({"id": c["id"], "items": 0, "end": "rejected", "diag": d.chars().take(120).collect::<String>()}),
                            Err(p) => {
                                let msg = p.downcast_ref::<String>().cloned().or_else(|| p.downcast_ref::<&str>().map(|s| s.to_string())).unwrap_or_default();
                                json!({"id": c["id"], "items": 0, "end": "panic", "panic": msg})
                            }
                        }
                    }
                    Err(e) => json!({"id": c["id"], "items": 0, "end": format!("does not compile: {e}")}),
                    Ok(filter) => {
                        let vals: Vec<Val> = c["vars"].as_array().map(|a| a.iter().map(|v| enc::json_to_val(&v[1]).unwrap()).collect()).unwrap_or_default();
                        let input = c.get("input").filter(|j| !j.is_null()).map(|j| enc::json_to_val(j).unwrap()).unwrap_or(Val::Null);
                        let r = std::panic::catch_unwind(std::panic::AssertUnwindSafe(|| {
                            let boxed: Box<dyn Iterator<Item = Result<Val, String>>> = Box::new(core::iter::empty());
                            let rc = RcIter::new(boxed);
                            let runner = Runner::default();
                            let data = Data { runner: &runner, lut: &filter.lut, inputs: &rc };
                            let ctx = Ctx::new(&data, Vars::new(vals));
                            let mut n = 0;
                            let mut end = "ok".to_string();
                            for r in filter.id.run((ctx, input)).take(c["cap"].as_u64().unwrap_or(8) as usize) {
                                match classify(r) {
                                    Item::Out(_) => n += 1,
                                    Item::Err { .. } => {
                                        end = "error".into();
                                        break;
                                    }
                                    other => {
                                        end = other.to_json().to_string();
                                        break;
                                    }
                                }
                            }
                            (n, end)
                        }));
                        match r {
                            Ok((n, end)) => json!({"id": c["id"], "items": n, "end": end}),
                            Err(p) => {
                                let msg = p.downcast_ref::<String>().cloned().or_else(|| p.downcast_ref::<&str>().map(|s| s.to_string())).unwrap_or_default();
                                json!({"id": c["id"], "items": 0, "end": "panic", "panic": msg})
                            }
                        }
                    }
                };
                writeln!(w, "{res}").unwrap();
                w.flush().unwrap();
            }
            marker("done");
        }
        _ => {
            eprintln!("usage: harness sys names | run <cases> <out> <from>");
            std::process::exit(2);
        }
    }
}
